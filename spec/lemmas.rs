// Property-level lemmas over the contracts (spliced as src/verif_lemmas.rs; never part of /repo).
// Every lemma is a Verus `proof fn` (unbounded; induction where needed).  The cryptographic
// idealisations they rest on are stated as named axioms at the top; they are computational facts
// about AES-GCM / ChaCha20-Poly1305 / HKDF / the DH groups, NOT theorems, and are listed in evidence.
#![allow(unused_imports)]
use vstd::prelude::*;
use crate::verif_shim::*;
use crate::HpkeError;
use crate::dhkex::DhKeyExchange;

verus!{

// ======================================================================== idealisations (axioms)
/// AEAD correctness (RFC 5116 §2.2): what Seal produced, Open under the same key/nonce/aad returns
pub axiom fn ax_aead_correct<I: ?Sized>(k: Bytes, n: Bytes, a: Bytes, pt: Bytes)
    ensures aead_seal_spec::<I>(k, n, a, pt) matches Some(c) ==> aead_open_spec::<I>(k, n, a, c.0, c.1) == Some(pt);
/// Open accepts only Seal outputs: if (aad, ct, tag) opens to p under (key, nonce) then Seal(key, nonce,
/// aad, p) == (ct, tag).  This is a functional fact of AES-GCM and ChaCha20-Poly1305 (Open recomputes
/// the tag over (aad, ct) and inverts the stream cipher).  Unforgeability (INT-CTXT) then enters the
/// lemmas as the explicit hypothesis "the delivered triple is not itself a Seal output".
pub axiom fn ax_aead_authentic<I: ?Sized>(k: Bytes, n: Bytes, a: Bytes, ct: Bytes, tag: Bytes)
    ensures aead_open_spec::<I>(k, n, a, ct, tag) matches Some(p) ==> aead_seal_spec::<I>(k, n, a, p) == Some((ct, tag));
/// Seal is length preserving with an Nt-byte tag
pub axiom fn ax_aead_lengths<I: aead::AeadCore>(k: Bytes, n: Bytes, a: Bytes, pt: Bytes)
    ensures aead_seal_spec::<I>(k, n, a, pt) matches Some(c) ==> c.0.len() == pt.len() && c.1.len() == nt_of::<I>();
/// HKDF-Extract outputs Nh bytes (RFC 5869 §2.2)
pub axiom fn ax_extract_len(nh: nat, s: Bytes, i: Bytes)
    ensures hkdf_extract(nh, s, i).len() == nh;
// Collision-freeness of HKDF is NOT an axiom (a function from unbounded strings to Nh bytes cannot be
// injective, so such an axiom would be inconsistent): the binding lemmas take "these particular calls
// do not collide" as explicit hypotheses, which is the computational assumption stated precisely.
pub open spec fn extract_cf(nh: nat, s1: Bytes, i1: Bytes, s2: Bytes, i2: Bytes) -> bool {
    hkdf_extract(nh, s1, i1) == hkdf_extract(nh, s2, i2) ==> s1 == s2 && i1 == i2
}
pub open spec fn expand_cf(nh: nat, p1: Bytes, i1: Bytes, p2: Bytes, i2: Bytes, len: nat) -> bool {
    hkdf_expand(nh, p1, i1, len) == hkdf_expand(nh, p2, i2, len) ==> p1 == p2 && i1 == i2
}
/// Diffie-Hellman commutativity: DH(a, pk(b)) == DH(b, pk(a)); public keys and DH results have fixed lengths
pub axiom fn ax_dh_commutes<Kex: DhKeyExchange>(a: Bytes, b: Bytes)
    ensures Kex::s_dh(a, Kex::s_pk_of(b)) == Kex::s_dh(b, Kex::s_pk_of(a));
/// "DH with a fixed public key is injective in the private key on these two keys" (holds for honestly
/// generated keys in a prime-order group; taken as an explicit hypothesis, not an axiom)
pub open spec fn dh_inj_sk<Kex: DhKeyExchange>(a: Bytes, a2: Bytes, pk: Bytes) -> bool {
    Kex::s_dh(a, pk) == Kex::s_dh(a2, pk) && Kex::s_dh(a, pk) is Some ==> Kex::s_pk_of(a) == Kex::s_pk_of(a2)
}
pub axiom fn ax_pk_lengths<Kex: DhKeyExchange>(a: Bytes, b: Bytes)
    ensures Kex::s_pk_of(a).len() == Kex::s_pk_of(b).len();
pub axiom fn ax_dh_lengths<Kex: DhKeyExchange>(a: Bytes, p: Bytes, b: Bytes, q: Bytes)
    ensures Kex::s_dh(a, p) is Some && Kex::s_dh(b, q) is Some ==> Kex::s_dh(a, p).unwrap().len() == Kex::s_dh(b, q).unwrap().len();

// ======================================================================== sequence helpers
pub proof fn lemma_concat_cancel_left(a: Bytes, x: Bytes, y: Bytes)
    requires a + x == a + y,
    ensures x == y,
{
    assert(x.len() == y.len()) by { assert((a + x).len() == a.len() + x.len()); assert((a + y).len() == a.len() + y.len()); }
    assert forall|i: int| 0 <= i < x.len() implies x[i] == y[i] by {
        assert((a + x)[a.len() + i] == x[i]);
        assert((a + y)[a.len() + i] == y[i]);
    }
    assert(x =~= y);
}
pub proof fn lemma_concat_cancel_right(x: Bytes, y: Bytes, b: Bytes)
    requires x + b == y + b,
    ensures x == y,
{
    assert(x.len() == y.len()) by { assert((x + b).len() == x.len() + b.len()); assert((y + b).len() == y.len() + b.len()); }
    assert forall|i: int| 0 <= i < x.len() implies x[i] == y[i] by {
        assert((x + b)[i] == x[i]);
        assert((y + b)[i] == y[i]);
    }
    assert(x =~= y);
}
/// concatenation with an equal-length first part is injective in both parts
pub proof fn lemma_concat_split(a: Bytes, x: Bytes, b: Bytes, y: Bytes)
    requires a + x == b + y, a.len() == b.len(),
    ensures a == b && x == y,
{
    assert forall|i: int| 0 <= i < a.len() implies a[i] == b[i] by {
        assert((a + x)[i] == a[i]);
        assert((b + y)[i] == b[i]);
    }
    assert(a =~= b);
    lemma_concat_cancel_left(a, x, y);
}

// ======================================================================== C04: nonces never repeat
pub open spec fn pow256(n: nat) -> nat decreases n { if n == 0 { 1 } else { 256 * pow256((n - 1) as nat) } }

/// I2OSP(c, 1) is the single byte c (used by the NIST DeriveKeyPair spec)
/*@C03*/ pub proof fn lemma_i2osp_one(c: nat)
    requires c < 256,
    ensures i2osp(c, 1) == seq![c as u8],
{
    reveal_with_fuel(i2osp, 3);
    assert(i2osp(c, 1) =~= seq![c as u8]);
}
pub proof fn lemma_i2osp_len(n: nat, len: nat)
    ensures i2osp(n, len).len() == len
    decreases len
{
    if len > 0 { lemma_i2osp_len(n / 256, (len - 1) as nat); }
}
/// I2OSP is injective on [0, 256^len)
pub proof fn lemma_i2osp_injective(a: nat, b: nat, len: nat)
    requires a < pow256(len), b < pow256(len), i2osp(a, len) == i2osp(b, len),
    ensures a == b
    decreases len
{
    if len == 0 {
        assert(pow256(0) == 1);
    } else {
        let l1 = (len - 1) as nat;
        lemma_i2osp_len(a / 256, l1);
        lemma_i2osp_len(b / 256, l1);
        let sa = i2osp(a / 256, l1);
        let sb = i2osp(b / 256, l1);
        assert(i2osp(a, len) == sa.push((a % 256) as u8));
        assert(i2osp(b, len) == sb.push((b % 256) as u8));
        assert(sa.push((a % 256) as u8)[l1 as int] == (a % 256) as u8);
        assert(sb.push((b % 256) as u8)[l1 as int] == (b % 256) as u8);
        assert((a % 256) as u8 == (b % 256) as u8);
        assert(a % 256 == b % 256);
        assert(sa =~= sa.push((a % 256) as u8).drop_last());
        assert(sb =~= sb.push((b % 256) as u8).drop_last());
        assert(sa == sb);
        assert(pow256(len) == 256 * pow256(l1));
        assert(a / 256 < pow256(l1)) by (nonlinear_arith) requires a < 256 * pow256(l1);
        assert(b / 256 < pow256(l1)) by (nonlinear_arith) requires b < 256 * pow256(l1);
        lemma_i2osp_injective(a / 256, b / 256, l1);
        assert(a == 256 * (a / 256) + a % 256) by (nonlinear_arith);
        assert(b == 256 * (b / 256) + b % 256) by (nonlinear_arith);
    }
}
pub proof fn lemma_pow256_8_le(len: nat)
    requires len >= 8,
    ensures pow256(len) >= 0x1_0000_0000_0000_0000
    decreases len
{
    reveal_with_fuel(pow256, 9);
    if len == 8 {
        assert(pow256(8) == 0x1_0000_0000_0000_0000) by (compute);
    } else {
        lemma_pow256_8_le((len - 1) as nat);
        assert(pow256(len) == 256 * pow256((len - 1) as nat));
    }
}
proof fn lemma_xor_cancel(a: u8, x: u8, y: u8)
    requires a ^ x == a ^ y,
    ensures x == y,
{
    assert(a ^ x == a ^ y ==> x == y) by (bit_vector);
}
/// ComputeNonce is injective in the sequence number: two different sequence numbers below 2^64 never
/// give the same nonce (for any base nonce of at least 8 bytes)
pub proof fn lemma_nonce_injective(base: Bytes, i: nat, j: nat)
    requires i < 0x1_0000_0000_0000_0000, j < 0x1_0000_0000_0000_0000, base.len() >= 8,
             compute_nonce_spec(base, i) == compute_nonce_spec(base, j),
    ensures i == j,
{
    let n = base.len();
    lemma_i2osp_len(i, n);
    lemma_i2osp_len(j, n);
    let si = i2osp(i, n);
    let sj = i2osp(j, n);
    assert forall|k: int| 0 <= k < n implies si[k] == sj[k] by {
        assert(compute_nonce_spec(base, i)[k] == base[k] ^ si[k]);
        assert(compute_nonce_spec(base, j)[k] == base[k] ^ sj[k]);
        lemma_xor_cancel(base[k], si[k], sj[k]);
    }
    assert(si =~= sj);
    lemma_pow256_8_le(n);
    lemma_i2osp_injective(i, j, n);
}

/// abstract position of a context: number of messages processed (2^64 once the limit latched)
pub open spec fn ctx_pos(v: CtxView) -> nat { if v.overflowed { 0x1_0000_0000_0000_0000 } else { v.seq } }
pub open spec fn ctx_wf(v: CtxView) -> bool { v.seq <= 0xffff_ffff_ffff_ffff && v.base_nonce.len() >= 8 }

/// one ContextS.Seal step: a success uses nonce(base, pos) with pos < 2^64 and moves pos to pos + 1;
/// a failure (AEAD error or message limit) leaves the whole context unchanged; key, base nonce,
/// exporter secret and suite id never change
/*@C04*/ pub proof fn lemma_seal_step<I: ?Sized>(v: CtxView, aad: Bytes, pt: Bytes)
    requires ctx_wf(v),
    ensures ({
        let s = ctx_seal_spec::<I>(v, aad, pt);
        &&& ctx_wf(s.0)
        &&& s.0.key == v.key && s.0.base_nonce == v.base_nonce && s.0.exporter_secret == v.exporter_secret && s.0.suite_id == v.suite_id
        &&& (s.1 is Err ==> s.0 == v)
        &&& (v.overflowed ==> s.1 == Err::<(Bytes, Bytes), HpkeError>(HpkeError::MessageLimitReached))
        &&& (s.1 is Ok ==> ctx_pos(v) < 0x1_0000_0000_0000_0000 && ctx_pos(s.0) == ctx_pos(v) + 1
               && aead_seal_spec::<I>(v.key, compute_nonce_spec(v.base_nonce, ctx_pos(v)), aad, pt) == Some(s.1.unwrap()))
        // sealing keeps working up to and including sequence number 2^64-1 unless the AEAD itself errs
        &&& (!v.overflowed && aead_seal_spec::<I>(v.key, compute_nonce_spec(v.base_nonce, v.seq), aad, pt) is Some ==> s.1 is Ok)
    }),
{
}

/// a history of seal calls: state before call number k
pub open spec fn seal_state_at<I: ?Sized>(v: CtxView, ms: Seq<(Bytes, Bytes)>, k: nat) -> CtxView
    decreases k
{
    if k == 0 { v } else {
        let p = seal_state_at::<I>(v, ms, (k - 1) as nat);
        ctx_seal_spec::<I>(p, ms[k - 1].0, ms[k - 1].1).0
    }
}
pub open spec fn seal_ok_at<I: ?Sized>(v: CtxView, ms: Seq<(Bytes, Bytes)>, k: nat) -> bool {
    ctx_seal_spec::<I>(seal_state_at::<I>(v, ms, k), ms[k as int].0, ms[k as int].1).1 is Ok
}
proof fn lemma_seal_history_inv<I: ?Sized>(v: CtxView, ms: Seq<(Bytes, Bytes)>, k: nat)
    requires ctx_wf(v), k <= ms.len(),
    ensures ctx_wf(seal_state_at::<I>(v, ms, k)),
            seal_state_at::<I>(v, ms, k).base_nonce == v.base_nonce,
            seal_state_at::<I>(v, ms, k).key == v.key,
            seal_state_at::<I>(v, ms, k).exporter_secret == v.exporter_secret,
            seal_state_at::<I>(v, ms, k).suite_id == v.suite_id,
            ctx_pos(seal_state_at::<I>(v, ms, k)) >= ctx_pos(v),
    decreases k
{
    if k > 0 {
        lemma_seal_history_inv::<I>(v, ms, (k - 1) as nat);
        lemma_seal_step::<I>(seal_state_at::<I>(v, ms, (k - 1) as nat), ms[k - 1].0, ms[k - 1].1);
    }
}
proof fn lemma_seal_pos_monotone<I: ?Sized>(v: CtxView, ms: Seq<(Bytes, Bytes)>, i: nat, j: nat)
    requires ctx_wf(v), i < j, j <= ms.len(), seal_ok_at::<I>(v, ms, i),
    ensures ctx_pos(seal_state_at::<I>(v, ms, j)) >= ctx_pos(seal_state_at::<I>(v, ms, i)) + 1,
    decreases j
{
    lemma_seal_history_inv::<I>(v, ms, i);
    if j == i + 1 {
        lemma_seal_step::<I>(seal_state_at::<I>(v, ms, i), ms[i as int].0, ms[i as int].1);
    } else {
        lemma_seal_pos_monotone::<I>(v, ms, i, (j - 1) as nat);
        lemma_seal_history_inv::<I>(v, ms, (j - 1) as nat);
        lemma_seal_step::<I>(seal_state_at::<I>(v, ms, (j - 1) as nat), ms[j - 1].0, ms[j - 1].1);
    }
}
/// C04, history form: in ANY history of seal calls on one context, two successful seals never use
/// the same nonce; the i-th success (counting from the context's position) uses base XOR I2OSP(pos);
/// once a call is refused with MessageLimitReached every later call is refused and nothing changes
/*@C04*/ pub proof fn lemma_seal_history_no_nonce_reuse<I: ?Sized>(v: CtxView, ms: Seq<(Bytes, Bytes)>, i: nat, j: nat)
    requires ctx_wf(v), i < j, j < ms.len(), seal_ok_at::<I>(v, ms, i), seal_ok_at::<I>(v, ms, j),
    ensures ({
        let pi = ctx_pos(seal_state_at::<I>(v, ms, i));
        let pj = ctx_pos(seal_state_at::<I>(v, ms, j));
        &&& pi < pj && pj < 0x1_0000_0000_0000_0000
        &&& compute_nonce_spec(v.base_nonce, pi) != compute_nonce_spec(v.base_nonce, pj)
    }),
{
    lemma_seal_pos_monotone::<I>(v, ms, i, j);
    lemma_seal_history_inv::<I>(v, ms, i);
    lemma_seal_history_inv::<I>(v, ms, j);
    lemma_seal_step::<I>(seal_state_at::<I>(v, ms, j), ms[j as int].0, ms[j as int].1);
    let pi = ctx_pos(seal_state_at::<I>(v, ms, i));
    let pj = ctx_pos(seal_state_at::<I>(v, ms, j));
    if compute_nonce_spec(v.base_nonce, pi) == compute_nonce_spec(v.base_nonce, pj) {
        lemma_nonce_injective(v.base_nonce, pi, pj);
    }
}
/*@C04*/ pub proof fn lemma_seal_refuses_forever<I: ?Sized>(v: CtxView, ms: Seq<(Bytes, Bytes)>, k: nat)
    requires v.overflowed, k <= ms.len(),
    ensures seal_state_at::<I>(v, ms, k) == v,
            k < ms.len() ==> ctx_seal_spec::<I>(seal_state_at::<I>(v, ms, k), ms[k as int].0, ms[k as int].1).1
                              == Err::<(Bytes, Bytes), HpkeError>(HpkeError::MessageLimitReached),
    decreases k
{
    if k > 0 { lemma_seal_refuses_forever::<I>(v, ms, (k - 1) as nat); }
}


// ======================================================================== C05 / C06: the receiver
/// one ContextR.Open step (in-place form) under the authenticity idealisation: the step succeeds
/// exactly for the (aad, ct, tag) triple that Seal produced under the receiver's current position;
/// success moves the position by one, ANY failure leaves the whole context unchanged
/*@C05 C06*/ pub proof fn lemma_open_step<I: ?Sized>(v: CtxView, aad: Bytes, ct: Bytes, tag: Bytes)
    requires ctx_wf(v),
    ensures ({
        let s = ctx_open_spec::<I>(v, aad, ct, tag);
        &&& ctx_wf(s.0)
        &&& s.0.key == v.key && s.0.base_nonce == v.base_nonce && s.0.exporter_secret == v.exporter_secret && s.0.suite_id == v.suite_id
        &&& (s.1 is Err ==> s.0 == v)
        &&& (v.overflowed ==> s.1 == Err::<Bytes, HpkeError>(HpkeError::MessageLimitReached))
        &&& (!v.overflowed && s.1 is Err ==> s.1 == Err::<Bytes, HpkeError>(HpkeError::OpenError))
        &&& (s.1 matches Ok(p) ==> ctx_pos(v) < 0x1_0000_0000_0000_0000 && ctx_pos(s.0) == ctx_pos(v) + 1
               && aead_seal_spec::<I>(v.key, compute_nonce_spec(v.base_nonce, ctx_pos(v)), aad, p) == Some((ct, tag)))
    }),
{
    if !v.overflowed {
        ax_aead_authentic::<I>(v.key, compute_nonce_spec(v.base_nonce, v.seq), aad, ct, tag);
    }
}
/// C06: a delivered triple that differs from the sealed one in ANY way (bit flip, substitution of tag or
/// aad from another message, different ciphertext) is rejected with OpenError and changes nothing
/*@C06 C05*/ pub proof fn lemma_modified_rejected<I: ?Sized>(v: CtxView, aad: Bytes, pt: Bytes, aad2: Bytes, ct2: Bytes, tag2: Bytes)
    requires ctx_wf(v), !v.overflowed,
             aead_seal_spec::<I>(v.key, compute_nonce_spec(v.base_nonce, v.seq), aad, pt) matches Some(c) && (aad2, ct2, tag2) != (aad, c.0, c.1),
             // no OTHER plaintext sealed under this nonce yields the delivered triple (it was not sealed by the sender)
             forall|p2: Bytes| aead_seal_spec::<I>(v.key, compute_nonce_spec(v.base_nonce, v.seq), aad2, p2) != Some((ct2, tag2)),
    ensures ctx_open_spec::<I>(v, aad2, ct2, tag2) == (v, Err::<Bytes, HpkeError>(HpkeError::OpenError)),
{
    ax_aead_authentic::<I>(v.key, compute_nonce_spec(v.base_nonce, v.seq), aad2, ct2, tag2);
}
/// C06 for the allocating interface: removing or appending bytes, or flipping any bit of `ct || tag`,
/// changes the (ct, tag) pair handed to the AEAD (the tag is always the last Nt bytes)
/*@C06*/ pub proof fn lemma_alloc_split_injective(c1: Bytes, c2: Bytes, nt: nat)
    requires c1.len() >= nt, c2.len() >= nt, c1 != c2,
    ensures (c1.subrange(0, c1.len() - nt), c1.subrange(c1.len() - nt, c1.len() as int))
         != (c2.subrange(0, c2.len() - nt), c2.subrange(c2.len() - nt, c2.len() as int)),
{
    let a1 = c1.subrange(0, c1.len() - nt); let t1 = c1.subrange(c1.len() - nt, c1.len() as int);
    let a2 = c2.subrange(0, c2.len() - nt); let t2 = c2.subrange(c2.len() - nt, c2.len() as int);
    if a1 == a2 && t1 == t2 {
        assert(c1 =~= a1 + t1);
        assert(c2 =~= a2 + t2);
    }
}
/*@C06 C05 C13*/ pub proof fn lemma_alloc_short_rejected<I: ?Sized>(v: CtxView, aad: Bytes, c: Bytes, nt: nat)
    requires !v.overflowed, c.len() < nt,
    ensures ctx_open_alloc_spec::<I>(v, aad, c, nt) == (v, Err::<Bytes, HpkeError>(HpkeError::OpenError)),
{
}

/// a history of deliveries (aad, ct, tag) to one receiver context
pub open spec fn open_state_at<I: ?Sized>(v: CtxView, ds: Seq<(Bytes, Bytes, Bytes)>, k: nat) -> CtxView
    decreases k
{
    if k == 0 { v } else {
        let p = open_state_at::<I>(v, ds, (k - 1) as nat);
        ctx_open_spec::<I>(p, ds[k - 1].0, ds[k - 1].1, ds[k - 1].2).0
    }
}
pub open spec fn open_successes<I: ?Sized>(v: CtxView, ds: Seq<(Bytes, Bytes, Bytes)>, k: nat) -> nat
    decreases k
{
    if k == 0 { 0 } else {
        let p = open_state_at::<I>(v, ds, (k - 1) as nat);
        open_successes::<I>(v, ds, (k - 1) as nat)
            + if ctx_open_spec::<I>(p, ds[k - 1].0, ds[k - 1].1, ds[k - 1].2).1 is Ok { 1nat } else { 0nat }
    }
}
/// C05, history form: after ANY history of open attempts the context's position is its initial position
/// plus the number of successes, nothing else changed, and what it accepts next is exactly the triple
/// sealed under that position (lemma_open_step); after 2^64 successes every call is MessageLimitReached
/*@C05*/ pub proof fn lemma_open_history<I: ?Sized>(v: CtxView, ds: Seq<(Bytes, Bytes, Bytes)>, k: nat)
    requires ctx_wf(v), k <= ds.len(),
    ensures ({
        let s = open_state_at::<I>(v, ds, k);
        &&& ctx_wf(s)
        &&& ctx_pos(s) == ctx_pos(v) + open_successes::<I>(v, ds, k)
        &&& s.key == v.key && s.base_nonce == v.base_nonce && s.exporter_secret == v.exporter_secret && s.suite_id == v.suite_id
    }),
    decreases k
{
    if k > 0 {
        lemma_open_history::<I>(v, ds, (k - 1) as nat);
        lemma_open_step::<I>(open_state_at::<I>(v, ds, (k - 1) as nat), ds[k - 1].0, ds[k - 1].1, ds[k - 1].2);
    }
}

// ======================================================================== C01: round trip
/// if sender and receiver contexts agree, the sealed i-th message opens to the i-th plaintext and the
/// two contexts agree again afterwards (also across the message limit, where both refuse)
/*@C01*/ pub proof fn lemma_roundtrip_step<I: aead::AeadCore>(v: CtxView, aad: Bytes, pt: Bytes)
    requires ctx_wf(v),
    ensures ({
        let s = ctx_seal_spec::<I>(v, aad, pt);
        &&& (s.1 matches Ok(c) ==> ctx_open_spec::<I>(v, aad, c.0, c.1) == (s.0, Ok::<Bytes, HpkeError>(pt))
                                   && c.0.len() == pt.len() && c.1.len() == nt_of::<I>()
                                   // allocating forms: ct || tag has length |pt| + Nt and opens to pt
                                   && (c.0 + c.1).len() == pt.len() + nt_of::<I>()
                                   && ctx_open_alloc_spec::<I>(v, aad, c.0 + c.1, nt_of::<I>()) == (s.0, Ok::<Bytes, HpkeError>(pt)))
        &&& (s.1 is Err ==> s.0 == v)
    }),
{
    if !v.overflowed {
        let n = compute_nonce_spec(v.base_nonce, v.seq);
        ax_aead_correct::<I>(v.key, n, aad, pt);
        ax_aead_lengths::<I>(v.key, n, aad, pt);
        match aead_seal_spec::<I>(v.key, n, aad, pt) {
            Some(c) => {
                let w = c.0 + c.1;
                assert(w.subrange(0, w.len() - nt_of::<I>()) =~= c.0);
                assert(w.subrange(w.len() - nt_of::<I>(), w.len() as int) =~= c.1);
            },
            None => {},
        }
    }
}
/// the receiver state after opening, in order, everything the sender sealed successfully
pub open spec fn rt_states<I: ?Sized>(v: CtxView, ms: Seq<(Bytes, Bytes)>, k: nat) -> (CtxView, CtxView)
    decreases k
{
    if k == 0 { (v, v) } else {
        let p = rt_states::<I>(v, ms, (k - 1) as nat);
        let s = ctx_seal_spec::<I>(p.0, ms[k - 1].0, ms[k - 1].1);
        match s.1 {
            Ok(c) => (s.0, ctx_open_spec::<I>(p.1, ms[k - 1].0, c.0, c.1).0),
            Err(_) => (s.0, p.1),
        }
    }
}
/// C01 for every sequence of messages: sender and receiver stay in lock step and the k-th ciphertext,
/// delivered in order, opens to exactly the k-th plaintext
/*@C01*/ pub proof fn lemma_roundtrip_sequence<I: aead::AeadCore>(v: CtxView, ms: Seq<(Bytes, Bytes)>, k: nat)
    requires ctx_wf(v), k <= ms.len(),
    ensures rt_states::<I>(v, ms, k).0 == rt_states::<I>(v, ms, k).1,
            ctx_wf(rt_states::<I>(v, ms, k).0),
            k < ms.len() ==> ({
                let p = rt_states::<I>(v, ms, k);
                let s = ctx_seal_spec::<I>(p.0, ms[k as int].0, ms[k as int].1);
                s.1 matches Ok(c) ==> ctx_open_spec::<I>(p.1, ms[k as int].0, c.0, c.1).1 == Ok::<Bytes, HpkeError>(ms[k as int].1)
            }),
    decreases k
{
    if k > 0 {
        lemma_roundtrip_sequence::<I>(v, ms, (k - 1) as nat);
        let p = rt_states::<I>(v, ms, (k - 1) as nat);
        lemma_roundtrip_step::<I>(p.0, ms[k - 1].0, ms[k - 1].1);
        lemma_seal_step::<I>(p.0, ms[k - 1].0, ms[k - 1].1);
    }
    if k < ms.len() {
        let p = rt_states::<I>(v, ms, k);
        lemma_roundtrip_step::<I>(p.0, ms[k as int].0, ms[k as int].1);
    }
}
/// C01, setup: decapsulating the sender's `enc` with the private key belonging to the recipient public
/// key (and, in the Auth modes, the public key belonging to the sender's private key) yields the sender's
/// shared secret; with equal info / mode / psk inputs the two key schedules are then literally equal
/*@C01 C08*/ pub proof fn lemma_encap_decap_agree<Kex: DhKeyExchange>(nh: nat, kem_id: u16, sk_r: Bytes, sender_sk: Option<Bytes>, sk_e: Bytes)
    ensures ({
        let pk_r = Kex::s_pk_of(sk_r);
        let sender = match sender_sk { Some(s) => Some((s, Kex::s_pk_of(s))), None => None };
        let pk_s = match sender_sk { Some(s) => Some(Kex::s_pk_of(s)), None => None };
        dhkem_encap_spec::<Kex>(nh, kem_id, pk_r, sender, sk_e) matches Some(e)
            ==> dhkem_decap_spec::<Kex>(nh, kem_id, sk_r, pk_s, e.1) == Some(e.0)
    }),
{
    ax_dh_commutes::<Kex>(sk_e, sk_r);
    match sender_sk {
        Some(s) => { ax_dh_commutes::<Kex>(s, sk_r); },
        None => {},
    }
}


// ======================================================================== C07: context binding
pub proof fn lemma_labeled_ikm_injective(suite: Bytes, label: Bytes, x: Bytes, y: Bytes)
    requires version_label() + suite + label + x == version_label() + suite + label + y,
    ensures x == y,
{
    lemma_concat_cancel_left(version_label() + suite + label, x, y);
}
/// the labeled info of LabeledExpand determines suite id (10 bytes) and info, for a fixed label and length
pub proof fn lemma_labeled_info_injective(len: nat, s1: Bytes, s2: Bytes, label: Bytes, x: Bytes, y: Bytes)
    requires s1.len() == s2.len(),
             i2osp(len, 2) + version_label() + s1 + label + x == i2osp(len, 2) + version_label() + s2 + label + y,
    ensures s1 == s2 && x == y,
{
    let pre = i2osp(len, 2) + version_label();
    assert(pre + s1 + label + x =~= pre + (s1 + (label + x)));
    assert(pre + s2 + label + y =~= pre + (s2 + (label + y)));
    lemma_concat_cancel_left(pre, s1 + (label + x), s2 + (label + y));
    lemma_concat_split(s1, label + x, s2, label + y);
    lemma_concat_cancel_left(label, x, y);
}
/// key_schedule_context = mode || H(psk_id) || H(info) determines its three components
pub proof fn lemma_ks_context_injective(nh: nat, m1: u8, a1: Bytes, b1: Bytes, m2: u8, a2: Bytes, b2: Bytes)
    requires a1.len() == nh, a2.len() == nh, seq![m1] + a1 + b1 == seq![m2] + a2 + b2,
    ensures m1 == m2 && a1 == a2 && b1 == b2,
{
    assert(seq![m1] + a1 + b1 =~= seq![m1] + (a1 + b1));
    assert(seq![m2] + a2 + b2 =~= seq![m2] + (a2 + b2));
    lemma_concat_split(seq![m1], a1 + b1, seq![m2], a2 + b2);
    assert(seq![m1][0] == seq![m2][0]);
    lemma_concat_split(a1, b1, a2, b2);
}
/// every HKDF call of the two key schedules, paired: "none of these pairs is an HKDF collision"
pub open spec fn ks_no_collisions(nh: nat, s1: Bytes, m1: u8, ss1: Bytes, info1: Bytes, psk1: Bytes, pid1: Bytes,
                                  s2: Bytes, m2: u8, ss2: Bytes, info2: Bytes, psk2: Bytes, pid2: Bytes, lbl: Bytes, len: nat) -> bool {
    let e = Bytes::empty();
    &&& extract_cf(nh, e, version_label() + s1 + L_PSK_ID_HASH() + pid1, e, version_label() + s2 + L_PSK_ID_HASH() + pid2)
    &&& extract_cf(nh, e, version_label() + s1 + L_INFO_HASH() + info1, e, version_label() + s2 + L_INFO_HASH() + info2)
    &&& extract_cf(nh, ss1, version_label() + s1 + L_SECRET() + psk1, ss2, version_label() + s2 + L_SECRET() + psk2)
    &&& expand_cf(nh, ks_secret(nh, s1, ss1, psk1), i2osp(len, 2) + version_label() + s1 + lbl + ks_context(nh, s1, m1, info1, pid1),
                      ks_secret(nh, s2, ss2, psk2), i2osp(len, 2) + version_label() + s2 + lbl + ks_context(nh, s2, m2, info2, pid2), len)
}
/// C07 core: if one derived secret (label `lbl`: "key", "base_nonce" or "exp") of two key schedules is
/// equal then - barring an HKDF collision on the calls involved - EVERY input was equal: suite id
/// (KEM, KDF, AEAD identifiers), mode, shared secret, info, psk and psk_id.  Contrapositive: a difference
/// in any single component (one flipped bit, an appended zero byte, empty versus one byte, bytes moved
/// between info and psk_id, a mode swap with identical PSK data) changes key, base_nonce and exporter_secret.
/*@C07 C08*/ pub proof fn lemma_key_schedule_binding(nh: nat, s1: Bytes, m1: u8, ss1: Bytes, info1: Bytes, psk1: Bytes, pid1: Bytes,
                                                    s2: Bytes, m2: u8, ss2: Bytes, info2: Bytes, psk2: Bytes, pid2: Bytes, lbl: Bytes, len: nat)
    requires
        s1.len() == s2.len(),
        ks_no_collisions(nh, s1, m1, ss1, info1, psk1, pid1, s2, m2, ss2, info2, psk2, pid2, lbl, len),
        labeled_expand_spec(nh, ks_secret(nh, s1, ss1, psk1), s1, lbl, ks_context(nh, s1, m1, info1, pid1), len)
            == labeled_expand_spec(nh, ks_secret(nh, s2, ss2, psk2), s2, lbl, ks_context(nh, s2, m2, info2, pid2), len),
    ensures s1 == s2 && m1 == m2 && ss1 == ss2 && info1 == info2 && psk1 == psk2 && pid1 == pid2,
{
    let e = Bytes::empty();
    let c1 = ks_context(nh, s1, m1, info1, pid1);
    let c2 = ks_context(nh, s2, m2, info2, pid2);
    // expand_cf: prk and labeled info equal
    lemma_labeled_info_injective(len, s1, s2, lbl, c1, c2);
    let hp1 = labeled_extract_spec(nh, e, s1, L_PSK_ID_HASH(), pid1); let hi1 = labeled_extract_spec(nh, e, s1, L_INFO_HASH(), info1);
    let hp2 = labeled_extract_spec(nh, e, s2, L_PSK_ID_HASH(), pid2); let hi2 = labeled_extract_spec(nh, e, s2, L_INFO_HASH(), info2);
    ax_extract_len(nh, e, version_label() + s1 + L_PSK_ID_HASH() + pid1);
    ax_extract_len(nh, e, version_label() + s2 + L_PSK_ID_HASH() + pid2);
    lemma_ks_context_injective(nh, m1, hp1, hi1, m2, hp2, hi2);
    lemma_labeled_ikm_injective(s1, L_PSK_ID_HASH(), pid1, pid2);
    lemma_labeled_ikm_injective(s1, L_INFO_HASH(), info1, info2);
    lemma_labeled_ikm_injective(s1, L_SECRET(), psk1, psk2);
}
/// the full suite id is injective in the three identifiers (and always 10 bytes), so a different KDF or
/// AEAD (e.g. AES-256-GCM vs ChaCha20Poly1305, which share Nk and Nn) is a different suite id
/*@C07*/ pub proof fn lemma_suite_id_injective(k1: u16, d1: u16, a1: u16, k2: u16, d2: u16, a2: u16)
    requires full_suite_id_spec(k1, d1, a1) == full_suite_id_spec(k2, d2, a2),
    ensures k1 == k2 && d1 == d2 && a1 == a2,
{
    let h = seq![0x48u8, 0x50, 0x4b, 0x45];
    lemma_i2osp_len(k1 as nat, 2); lemma_i2osp_len(d1 as nat, 2); lemma_i2osp_len(a1 as nat, 2);
    lemma_i2osp_len(k2 as nat, 2); lemma_i2osp_len(d2 as nat, 2); lemma_i2osp_len(a2 as nat, 2);
    let x1 = h + i2osp(k1 as nat, 2) + i2osp(d1 as nat, 2); let x2 = h + i2osp(k2 as nat, 2) + i2osp(d2 as nat, 2);
    lemma_concat_split(x1, i2osp(a1 as nat, 2), x2, i2osp(a2 as nat, 2));
    lemma_concat_split(h + i2osp(k1 as nat, 2), i2osp(d1 as nat, 2), h + i2osp(k2 as nat, 2), i2osp(d2 as nat, 2));
    lemma_concat_cancel_left(h, i2osp(k1 as nat, 2), i2osp(k2 as nat, 2));
    assert(pow256(2) == 65536) by (compute);
    lemma_i2osp_injective(k1 as nat, k2 as nat, 2);
    lemma_i2osp_injective(d1 as nat, d2 as nat, 2);
    lemma_i2osp_injective(a1 as nat, a2 as nat, 2);
}
/*@C07*/ pub proof fn lemma_suite_id_len(k: u16, d: u16, a: u16)
    ensures full_suite_id_spec(k, d, a).len() == 10,
{
    lemma_i2osp_len(k as nat, 2); lemma_i2osp_len(d as nat, 2); lemma_i2osp_len(a as nat, 2);
}
/// exported secrets: different exporter_secret (or suite, or exporter context) => different export,
/// barring an HKDF collision on that call
/*@C07 C11*/ pub proof fn lemma_export_binding(nh: nat, e1: Bytes, s1: Bytes, c1: Bytes, e2: Bytes, s2: Bytes, c2: Bytes, len: nat)
    requires s1.len() == s2.len(),
             expand_cf(nh, e1, i2osp(len, 2) + version_label() + s1 + L_SEC() + c1, e2, i2osp(len, 2) + version_label() + s2 + L_SEC() + c2, len),
             export_spec(nh, e1, s1, c1, len) == export_spec(nh, e2, s2, c2, len),
    ensures e1 == e2 && s1 == s2 && c1 == c2,
{
    lemma_labeled_info_injective(len, s1, s2, L_SEC(), c1, c2);
}

// ======================================================================== C08 / C07: KEM binding
pub open spec fn kem_no_collisions(nh: nat, suite: Bytes, dh1: Bytes, ctx1: Bytes, dh2: Bytes, ctx2: Bytes) -> bool {
    let e = Bytes::empty();
    &&& extract_cf(nh, e, version_label() + suite + L_EAE_PRK() + dh1, e, version_label() + suite + L_EAE_PRK() + dh2)
    &&& expand_cf(nh, labeled_extract_spec(nh, e, suite, L_EAE_PRK(), dh1), i2osp(nh, 2) + version_label() + suite + L_SHARED_SECRET() + ctx1,
                      labeled_extract_spec(nh, e, suite, L_EAE_PRK(), dh2), i2osp(nh, 2) + version_label() + suite + L_SHARED_SECRET() + ctx2, nh)
}
/// ExtractAndExpand binds both the DH value and the kem_context (enc, pkR, pkS)
/*@C08 C07*/ pub proof fn lemma_kem_secret_binding(nh: nat, kem_id: u16, dh1: Bytes, ctx1: Bytes, dh2: Bytes, ctx2: Bytes)
    requires kem_no_collisions(nh, kem_suite_id_spec(kem_id), dh1, ctx1, dh2, ctx2),
             dhkem_shared_secret(nh, kem_id, dh1, ctx1) == dhkem_shared_secret(nh, kem_id, dh2, ctx2),
    ensures dh1 == dh2 && ctx1 == ctx2,
{
    let s = kem_suite_id_spec(kem_id);
    lemma_labeled_info_injective(nh, s, s, L_SHARED_SECRET(), ctx1, ctx2);
    lemma_labeled_ikm_injective(s, L_EAE_PRK(), dh1, dh2);
}
/// C08: a receiver in Auth/AuthPsk mode expecting pkS = pk(skS) derives the sender's shared secret only if
/// the sender (who presented the public half pkS) used a private key with the same public key; i.e. an
/// impostor pairing pkS with an unrelated private key, or any other identity, gets a different secret
/*@C08*/ pub proof fn lemma_auth_requires_sender_key<Kex: DhKeyExchange>(nh: nat, kem_id: u16, sk_r: Bytes, sk_s: Bytes, sk_imp: Bytes, pk_claimed: Bytes, sk_e: Bytes)
    requires ({
        let pk_r = Kex::s_pk_of(sk_r);
        let pk_s = Kex::s_pk_of(sk_s);
        let enc = Kex::s_pk_of(sk_e);
        &&& dhkem_encap_spec::<Kex>(nh, kem_id, pk_r, Some((sk_imp, pk_claimed)), sk_e) matches Some(e)
            && dhkem_decap_spec::<Kex>(nh, kem_id, sk_r, Some(pk_s), e.1) == Some(e.0)
        &&& dh_inj_sk::<Kex>(sk_imp, sk_s, pk_r)
        &&& kem_no_collisions(nh, kem_suite_id_spec(kem_id),
                Kex::s_dh(sk_e, pk_r).unwrap() + Kex::s_dh(sk_imp, pk_r).unwrap(), enc + pk_r + pk_claimed,
                Kex::s_dh(sk_r, enc).unwrap() + Kex::s_dh(sk_r, pk_s).unwrap(), enc + pk_r + pk_s)
    }),
    ensures pk_claimed == Kex::s_pk_of(sk_s) && Kex::s_pk_of(sk_imp) == Kex::s_pk_of(sk_s),
{
    let pk_r = Kex::s_pk_of(sk_r);
    let pk_s = Kex::s_pk_of(sk_s);
    let enc = Kex::s_pk_of(sk_e);
    let d1 = Kex::s_dh(sk_e, pk_r).unwrap(); let d2 = Kex::s_dh(sk_imp, pk_r).unwrap();
    let r1 = Kex::s_dh(sk_r, enc).unwrap(); let r2 = Kex::s_dh(sk_r, pk_s).unwrap();
    lemma_kem_secret_binding(nh, kem_id, d1 + d2, enc + pk_r + pk_claimed, r1 + r2, enc + pk_r + pk_s);
    lemma_concat_cancel_left(enc + pk_r, pk_claimed, pk_s);
    ax_dh_lengths::<Kex>(sk_e, pk_r, sk_r, enc);
    lemma_concat_split(d1, d2, r1, r2);
    ax_dh_commutes::<Kex>(sk_s, sk_r);
}
/// a sender in a NON-authenticated mode never matches an authenticating receiver: the kem_context lengths differ
/*@C08*/ pub proof fn lemma_unauth_sender_rejected<Kex: DhKeyExchange>(nh: nat, kem_id: u16, sk_r: Bytes, sk_s: Bytes, sk_e: Bytes)
    requires ({
        let pk_r = Kex::s_pk_of(sk_r);
        let pk_s = Kex::s_pk_of(sk_s);
        let enc = Kex::s_pk_of(sk_e);
        &&& dhkem_encap_spec::<Kex>(nh, kem_id, pk_r, None, sk_e) is Some
        &&& Kex::s_dh(sk_r, enc) is Some && Kex::s_dh(sk_r, pk_s) is Some
        &&& pk_s.len() > 0
        &&& kem_no_collisions(nh, kem_suite_id_spec(kem_id), Kex::s_dh(sk_e, pk_r).unwrap(), enc + pk_r,
                Kex::s_dh(sk_r, enc).unwrap() + Kex::s_dh(sk_r, pk_s).unwrap(), enc + pk_r + pk_s)
    }),
    ensures dhkem_decap_spec::<Kex>(nh, kem_id, sk_r, Some(Kex::s_pk_of(sk_s)), Kex::s_pk_of(sk_e))
         != Some(dhkem_encap_spec::<Kex>(nh, kem_id, Kex::s_pk_of(sk_r), None, sk_e).unwrap().0),
{
    let pk_r = Kex::s_pk_of(sk_r);
    let pk_s = Kex::s_pk_of(sk_s);
    let enc = Kex::s_pk_of(sk_e);
    let d1 = Kex::s_dh(sk_e, pk_r).unwrap();
    let r = Kex::s_dh(sk_r, enc).unwrap() + Kex::s_dh(sk_r, pk_s).unwrap();
    if dhkem_shared_secret(nh, kem_id, d1, enc + pk_r) == dhkem_shared_secret(nh, kem_id, r, enc + pk_r + pk_s) {
        lemma_kem_secret_binding(nh, kem_id, d1, enc + pk_r, r, enc + pk_r + pk_s);
        assert((enc + pk_r + pk_s).len() == (enc + pk_r).len() + pk_s.len());
    }
}


// ======================================================================== the side condition is inhabited
// suite_ok holds for each of the 4 AEADs x 3 KDFs the crate offers (the KEM does not enter it), so the
// generic proofs apply to all 48 suites and none of them is vacuous
/*@C01 C02 C11 C13*/ pub proof fn lemma_suite_ok_all()
    ensures
        suite_ok::<crate::aead::AesGcm128, crate::kdf::HkdfSha256>(), suite_ok::<crate::aead::AesGcm128, crate::kdf::HkdfSha384>(), suite_ok::<crate::aead::AesGcm128, crate::kdf::HkdfSha512>(),
        suite_ok::<crate::aead::AesGcm256, crate::kdf::HkdfSha256>(), suite_ok::<crate::aead::AesGcm256, crate::kdf::HkdfSha384>(), suite_ok::<crate::aead::AesGcm256, crate::kdf::HkdfSha512>(),
        suite_ok::<crate::aead::ChaCha20Poly1305, crate::kdf::HkdfSha256>(), suite_ok::<crate::aead::ChaCha20Poly1305, crate::kdf::HkdfSha384>(), suite_ok::<crate::aead::ChaCha20Poly1305, crate::kdf::HkdfSha512>(),
        suite_ok::<crate::aead::ExportOnlyAead, crate::kdf::HkdfSha256>(), suite_ok::<crate::aead::ExportOnlyAead, crate::kdf::HkdfSha384>(), suite_ok::<crate::aead::ExportOnlyAead, crate::kdf::HkdfSha512>(),
{
    broadcast use alg_sizes;
}

} // verus!
