// Assumed contracts on dependencies (the trusted base, DESIGN.md §5.A).  Nothing here is proved; every
// item is an assumption about a crate outside /repo, listed in each evidence file.
use generic_array::{GenericArray, ArrayLength};
use digest::{core_api::BlockSizeUser, Digest, OutputSizeUser};
use hmac::SimpleHmac;
use aead::{AeadCore, AeadInPlace, KeyInit, KeySizeUser};
use rand_core::{RngCore, CryptoRng};
use generic_array::typenum::Unsigned;

verus!{
// ---------------------------------------------------------------- typenum
// value of a type-level unsigned integer
pub uninterp spec fn tnum<N>() -> nat;

#[verifier::external_type_specification]
#[verifier::external_body]
#[verifier::accept_recursive_types(U)]
#[verifier::accept_recursive_types(B)]
pub struct ExUInt<U, B>(generic_array::typenum::UInt<U, B>);
#[verifier::external_type_specification]
#[verifier::external_body]
pub struct ExUTerm(generic_array::typenum::UTerm);
#[verifier::external_type_specification]
#[verifier::external_body]
pub struct ExB0(generic_array::typenum::B0);
#[verifier::external_type_specification]
#[verifier::external_body]
pub struct ExB1(generic_array::typenum::B1);

pub assume_specification<U: Unsigned, B: generic_array::typenum::Bit> [<generic_array::typenum::UInt<U, B> as Unsigned>::to_usize] () -> (r: usize)
    ensures r == tnum::<generic_array::typenum::UInt<U, B>>();
pub assume_specification [<generic_array::typenum::UTerm as Unsigned>::to_usize] () -> (r: usize)
    ensures r == tnum::<generic_array::typenum::UTerm>();

// values of the typenum constants the crate uses (cross-checked by the Kani harness `typenum_values`)
pub broadcast axiom fn tnum_u0()   ensures #[trigger] tnum::<generic_array::typenum::U0>() == 0;
pub broadcast axiom fn tnum_u12()  ensures #[trigger] tnum::<generic_array::typenum::U12>() == 12;
pub broadcast axiom fn tnum_u16()  ensures #[trigger] tnum::<generic_array::typenum::U16>() == 16;
pub broadcast axiom fn tnum_u32()  ensures #[trigger] tnum::<generic_array::typenum::U32>() == 32;
pub broadcast axiom fn tnum_u48()  ensures #[trigger] tnum::<generic_array::typenum::U48>() == 48;
pub broadcast axiom fn tnum_u64()  ensures #[trigger] tnum::<generic_array::typenum::U64>() == 64;
pub broadcast axiom fn tnum_u65()  ensures #[trigger] tnum::<generic_array::typenum::U65>() == 65;
pub broadcast axiom fn tnum_u66()  ensures #[trigger] tnum::<generic_array::typenum::U66>() == 66;
pub broadcast axiom fn tnum_u97()  ensures #[trigger] tnum::<generic_array::typenum::U97>() == 97;
pub broadcast axiom fn tnum_u128() ensures #[trigger] tnum::<generic_array::typenum::U128>() == 128;
pub broadcast axiom fn tnum_u133() ensures #[trigger] tnum::<generic_array::typenum::U133>() == 133;
pub broadcast group tnum_values { tnum_u0, tnum_u12, tnum_u16, tnum_u32, tnum_u48, tnum_u64, tnum_u65, tnum_u66, tnum_u97, tnum_u128, tnum_u133 }

// ---------------------------------------------------------------- generic_array
#[verifier::external_type_specification]
#[verifier::external_body]
#[verifier::accept_recursive_types(T)]
#[verifier::accept_recursive_types(N)]
pub struct ExGenericArray<T, N: ArrayLength<T>>(GenericArray<T, N>);

// the orphan rule forbids `impl View for GenericArray`; contracts use `.gv()`
pub trait GaView<T> { spec fn gv(&self) -> Seq<T>; }
impl<T, N: ArrayLength<T>> GaView<T> for GenericArray<T, N> {
    uninterp spec fn gv(&self) -> Seq<T>;
}
pub broadcast axiom fn ga_len<T, N: ArrayLength<T>>(ga: &GenericArray<T, N>)
    ensures #[trigger] ga.gv().len() == tnum::<N>();

pub assume_specification<T, N> [generic_array::GenericArray::<T, N>::as_slice] (ga: &generic_array::GenericArray<T, N>) -> (r: &[T])
    where N: generic_array::ArrayLength<T>,
    ensures r@ == ga.gv(), r@.len() == tnum::<N>();
pub assume_specification<T, N> [generic_array::GenericArray::<T, N>::as_mut_slice] (ga: &mut generic_array::GenericArray<T, N>) -> (r: &mut [T])
    where N: generic_array::ArrayLength<T>,
    ensures r@ == old(ga).gv(), r@.len() == tnum::<N>(), final(ga).gv() == final(r)@;
// implicit `&GenericArray -> &[T]` coercions: the existential carries the slice typing (DESIGN §3)
pub assume_specification<T, N> [<generic_array::GenericArray<T, N> as core::ops::Deref>::deref] (ga: &generic_array::GenericArray<T, N>) -> (r: &[T])
    where N: generic_array::ArrayLength<T>,
    ensures exists|s: &[T]| #![trigger s@] s == r && s@ == ga.gv() && s@.len() == tnum::<N>();
pub assume_specification<T, N> [<generic_array::GenericArray<T, N> as core::ops::DerefMut>::deref_mut] (ga: &mut generic_array::GenericArray<T, N>) -> (r: &mut [T])
    where N: generic_array::ArrayLength<T>,
    ensures exists|s: &mut [T]| #![trigger s@] s == r && s@ == old(ga).gv() && s@.len() == tnum::<N>() && final(ga).gv() == final(s)@;
pub assume_specification<T: Default, N> [<generic_array::GenericArray<T, N> as Default>::default] () -> (r: generic_array::GenericArray<T, N>)
    where N: generic_array::ArrayLength<T>,
    ensures r.gv().len() == tnum::<N>();

// ---------------------------------------------------------------- digest / hmac / hkdf
#[verifier::external_trait_specification]
pub trait ExOutputSizeUser {
    type ExternalTraitSpecificationFor: OutputSizeUser;
    type OutputSize: ArrayLength<u8> + 'static;
    fn output_size() -> (r: usize)
        ensures r == tnum::<Self::OutputSize>();
}
#[verifier::external_type_specification]
#[verifier::external_body]
#[verifier::accept_recursive_types(D)]
pub struct ExSimpleHmac<D: Digest + BlockSizeUser>(SimpleHmac<D>);

#[verifier::external_type_specification]
#[verifier::external_body]
#[verifier::accept_recursive_types(H)]
#[verifier::accept_recursive_types(I)]
pub struct ExHkdf<H: OutputSizeUser, I: hkdf::HmacImpl<H>>(hkdf::Hkdf<H, I>);
#[verifier::external_type_specification]
#[verifier::external_body]
#[verifier::accept_recursive_types(H)]
#[verifier::accept_recursive_types(I)]
pub struct ExHkdfExtract<H: OutputSizeUser, I: hkdf::HmacImpl<H>>(hkdf::HkdfExtract<H, I>);
#[verifier::external_type_specification]
pub struct ExInvalidLength(hkdf::InvalidLength);
#[verifier::external_type_specification]
pub struct ExInvalidPrkLength(hkdf::InvalidPrkLength);

pub open spec fn nh_of<H: OutputSizeUser>() -> nat { tnum::<H::OutputSize>() }

pub trait HkdfView { spec fn prk(&self) -> Bytes; }
impl<H: OutputSizeUser, I: hkdf::HmacImpl<H>> HkdfView for hkdf::Hkdf<H, I> {
    uninterp spec fn prk(&self) -> Bytes;
}
pub trait HkdfExtractView { spec fn salt(&self) -> Bytes; spec fn ikm(&self) -> Bytes; }
impl<H: OutputSizeUser, I: hkdf::HmacImpl<H>> HkdfExtractView for hkdf::HkdfExtract<H, I> {
    uninterp spec fn salt(&self) -> Bytes;
    uninterp spec fn ikm(&self) -> Bytes;
}

pub assume_specification<H, I> [hkdf::HkdfExtract::<H, I>::new] (salt: core::option::Option<&[u8]>) -> (r: hkdf::HkdfExtract<H, I>)
    where H: digest::OutputSizeUser, I: hkdf::HmacImpl<H>,
    ensures
        salt matches Some(s) ==> r.salt() == s@,
        salt is None ==> r.salt() == Seq::new(nh_of::<H>(), |i: int| 0u8),
        r.ikm() == Seq::<u8>::empty();
pub assume_specification<H, I> [hkdf::HkdfExtract::<H, I>::input_ikm] (this: &mut hkdf::HkdfExtract<H, I>, ikm: &[u8])
    where H: digest::OutputSizeUser, I: hkdf::HmacImpl<H>,
    ensures final(this).salt() == old(this).salt(), final(this).ikm() == old(this).ikm() + ikm@;
pub assume_specification<H, I> [hkdf::HkdfExtract::<H, I>::finalize] (this: hkdf::HkdfExtract<H, I>) -> (r: (generic_array::GenericArray<u8, <H as digest::OutputSizeUser>::OutputSize>, hkdf::Hkdf<H, I>))
    where H: digest::OutputSizeUser, I: hkdf::HmacImpl<H>,
    ensures r.0.gv() == hkdf_extract(nh_of::<H>(), this.salt(), this.ikm()), r.1.prk() == r.0.gv(), r.0.gv().len() == nh_of::<H>();

// RFC 5869: a PRK shorter than HashLen is rejected (hkdf 0.12: `prk.len() < OutputSize`)
pub assume_specification<H, I> [hkdf::Hkdf::<H, I>::from_prk] (prk: &[u8]) -> (r: Result<hkdf::Hkdf<H, I>, hkdf::InvalidPrkLength>)
    where H: digest::OutputSizeUser, I: hkdf::HmacImpl<H>,
    ensures
        r is Ok <==> prk@.len() >= nh_of::<H>(),
        r is Ok ==> r.unwrap().prk() == prk@;

// the concatenation of the info components handed to expand_multi_info
pub open spec fn concat_rec(parts: Seq<&[u8]>) -> Bytes decreases parts.len() {
    if parts.len() == 0 { Seq::empty() } else { concat_rec(parts.drop_last()) + parts.last()@ }
}
pub open spec fn concat_all(parts: Seq<&[u8]>) -> Bytes {
    if parts.len() == 5 { parts[0]@ + parts[1]@ + parts[2]@ + parts[3]@ + parts[4]@ }
    else { concat_rec(parts) }
}
pub assume_specification<H, I> [hkdf::Hkdf::<H, I>::expand_multi_info] (this: &hkdf::Hkdf<H, I>, infos: &[&[u8]], okm: &mut [u8]) -> (r: Result<(), hkdf::InvalidLength>)
    where H: digest::OutputSizeUser, I: hkdf::HmacImpl<H>,
    ensures
        final(okm)@.len() == old(okm)@.len(),
        r is Ok <==> old(okm)@.len() <= 255 * nh_of::<H>(),
        r is Ok ==> final(okm)@ == hkdf_expand(nh_of::<H>(), this.prk(), concat_all(infos@), old(okm)@.len());
// the single-info form (not used by the pinned code; declared so that a change which flattens the info first stays decidable)
pub assume_specification<H, I> [hkdf::Hkdf::<H, I>::expand] (this: &hkdf::Hkdf<H, I>, info: &[u8], okm: &mut [u8]) -> (r: Result<(), hkdf::InvalidLength>)
    where H: digest::OutputSizeUser, I: hkdf::HmacImpl<H>,
    ensures
        final(okm)@.len() == old(okm)@.len(),
        r is Ok <==> old(okm)@.len() <= 255 * nh_of::<H>(),
        r is Ok ==> final(okm)@ == hkdf_expand(nh_of::<H>(), this.prk(), info@, old(okm)@.len());
}

verus!{
// ---------------------------------------------------------------- sha2 / digest wrapper types (opaque)
#[verifier::external_type_specification] #[verifier::external_body] #[verifier::accept_recursive_types(T)]
pub struct ExCoreWrapper<T: digest::core_api::BufferKindUser>(digest::core_api::CoreWrapper<T>) where T::BlockSize: generic_array::typenum::IsLess<generic_array::typenum::U256>, generic_array::typenum::Le<T::BlockSize, generic_array::typenum::U256>: generic_array::typenum::NonZero;
#[verifier::external_type_specification] #[verifier::external_body] #[verifier::accept_recursive_types(T)] #[verifier::accept_recursive_types(OutSize)] #[verifier::accept_recursive_types(O)]
pub struct ExCtVar<T: digest::core_api::VariableOutputCore, OutSize: generic_array::ArrayLength<u8> + generic_array::typenum::IsLessOrEqual<T::OutputSize>, O>(digest::core_api::CtVariableCoreWrapper<T, OutSize, O>) where generic_array::typenum::LeEq<OutSize, T::OutputSize>: generic_array::typenum::NonZero, T::BlockSize: generic_array::typenum::IsLess<generic_array::typenum::U256>, generic_array::typenum::Le<T::BlockSize, generic_array::typenum::U256>: generic_array::typenum::NonZero;
#[verifier::external_type_specification] #[verifier::external_body] pub struct ExSha256VarCore(sha2::Sha256VarCore);
#[verifier::external_type_specification] #[verifier::external_body] pub struct ExSha512VarCore(sha2::Sha512VarCore);
#[verifier::external_type_specification] #[verifier::external_body] pub struct ExOidSha256(sha2::OidSha256);
#[verifier::external_type_specification] #[verifier::external_body] pub struct ExOidSha384(sha2::OidSha384);
#[verifier::external_type_specification] #[verifier::external_body] pub struct ExOidSha512(sha2::OidSha512);
}

verus!{
// ---------------------------------------------------------------- AEAD algorithm types (opaque)
#[verifier::external_type_specification] #[verifier::external_body]
#[verifier::accept_recursive_types(Aes)] #[verifier::accept_recursive_types(NonceSize)] #[verifier::accept_recursive_types(TagSize)]
pub struct ExAesGcm<Aes, NonceSize, TagSize: aes_gcm::TagSize>(aes_gcm::AesGcm<Aes, NonceSize, TagSize>);
#[verifier::external_type_specification] #[verifier::external_body] pub struct ExAes128(::aes::Aes128);
#[verifier::external_type_specification] #[verifier::external_body] pub struct ExAes256(::aes::Aes256);
#[verifier::external_type_specification] #[verifier::external_body]
#[verifier::accept_recursive_types(C)] #[verifier::accept_recursive_types(N)]
pub struct ExChaChaPoly1305<C, N: generic_array::ArrayLength<u8>>(chacha20poly1305::ChaChaPoly1305<C, N>);
#[verifier::external_type_specification] #[verifier::external_body] #[verifier::accept_recursive_types(T)]
pub struct ExStreamCipherCoreWrapper<T: ::cipher::BlockSizeUser>(::cipher::StreamCipherCoreWrapper<T>) where T::BlockSize: generic_array::typenum::IsLess<generic_array::typenum::U256>, generic_array::typenum::Le<T::BlockSize, generic_array::typenum::U256>: generic_array::typenum::NonZero;
#[verifier::external_type_specification] #[verifier::external_body] #[verifier::accept_recursive_types(R)]
pub struct ExChaChaCore<R: generic_array::typenum::Unsigned>(::chacha20::ChaChaCore<R>);
}

verus!{
// ---------------------------------------------------------------- aead traits
#[verifier::external_trait_specification]
pub trait ExAeadCore {
    type ExternalTraitSpecificationFor: AeadCore;
    type NonceSize: ArrayLength<u8>;
    type TagSize: ArrayLength<u8>;
    type CiphertextOverhead: ArrayLength<u8> + generic_array::typenum::Unsigned;
}
#[verifier::external_trait_specification]
pub trait ExKeySizeUser {
    type ExternalTraitSpecificationFor: KeySizeUser;
    type KeySize: ArrayLength<u8> + 'static;
}
#[verifier::external_type_specification]
pub struct ExAeadError(aead::Error);

pub open spec fn nk_of<I: KeySizeUser>() -> nat { tnum::<I::KeySize>() }
pub open spec fn nn_of<I: AeadCore>() -> nat { tnum::<I::NonceSize>() }
pub open spec fn nt_of<I: AeadCore>() -> nat { tnum::<I::TagSize>() }

#[verifier::external_trait_specification]
pub trait ExAeadInPlace: AeadCore {
    type ExternalTraitSpecificationFor: AeadInPlace;
    fn encrypt_in_place_detached(&self, nonce: &aead::Nonce<Self>, associated_data: &[u8], buffer: &mut [u8]) -> (r: Result<aead::Tag<Self>, aead::Error>)
        ensures
            final(buffer)@.len() == old(buffer)@.len(),
            r is Ok <==> aead_seal_spec::<Self>(aead_key_of::<Self>(self), nonce.gv(), associated_data@, old(buffer)@) is Some,
            r is Ok ==> final(buffer)@ == aead_seal_spec::<Self>(aead_key_of::<Self>(self), nonce.gv(), associated_data@, old(buffer)@).unwrap().0
                     && r.unwrap().gv() == aead_seal_spec::<Self>(aead_key_of::<Self>(self), nonce.gv(), associated_data@, old(buffer)@).unwrap().1;
    fn decrypt_in_place_detached(&self, nonce: &aead::Nonce<Self>, associated_data: &[u8], buffer: &mut [u8], tag: &aead::Tag<Self>) -> (r: Result<(), aead::Error>)
        ensures
            final(buffer)@.len() == old(buffer)@.len(),
            r is Ok <==> aead_open_spec::<Self>(aead_key_of::<Self>(self), nonce.gv(), associated_data@, old(buffer)@, tag.gv()) is Some,
            r is Ok ==> final(buffer)@ == aead_open_spec::<Self>(aead_key_of::<Self>(self), nonce.gv(), associated_data@, old(buffer)@, tag.gv()).unwrap();
}
#[verifier::external_trait_specification]
pub trait ExKeyInit: KeySizeUser + Sized {
    type ExternalTraitSpecificationFor: KeyInit;
    fn new(key: &aead::Key<Self>) -> (r: Self)
        ensures aead_key_of::<Self>(&r) == key.gv();
}

// ---------------------------------------------------------------- rand_core
#[verifier::external_trait_specification]
pub trait ExRngCore {
    type ExternalTraitSpecificationFor: RngCore;
    fn fill_bytes(&mut self, dst: &mut [u8])
        ensures final(dst)@.len() == old(dst)@.len(),
                final(dst)@ == rng_stream::<Self>(old(self)).take(old(dst)@.len() as int),
                rng_stream::<Self>(final(self)) == rng_stream::<Self>(old(self)).skip(old(dst)@.len() as int);
}
#[verifier::external_trait_specification]
pub trait ExCryptoRng: RngCore {
    type ExternalTraitSpecificationFor: CryptoRng;
}
}

verus!{
// ---------------------------------------------------------------- type-level side conditions
// (each concrete algorithm type is shown to satisfy them: spec/lemmas.rs `suite_ok_*`)
// Nn >= 8 (the 64-bit counter must fit into the nonce) and a tag small enough that |pt| + Nt cannot overflow
pub open spec fn aead_ok<A: crate::aead::Aead>() -> bool { 8 <= nn_of::<A::AeadImpl>() && nt_of::<A::AeadImpl>() <= 0xffff }
pub open spec fn kdf_ok<K: crate::kdf::Kdf>() -> bool { 1 <= nh_of::<K::HashImpl>() <= 64 }
pub open spec fn suite_ok<A: crate::aead::Aead, K: crate::kdf::Kdf>() -> bool {
    aead_ok::<A>() && kdf_ok::<K>()
    && nk_of::<A::AeadImpl>() <= 255 * nh_of::<K::HashImpl>()
    && nn_of::<A::AeadImpl>() <= 255 * nh_of::<K::HashImpl>()
}
}

verus!{
// ---------------------------------------------------------------- std items missing from vstd
pub assume_specification<T: Clone> [<[T]>::to_vec] (s: &[T]) -> (r: crate::Vec<T>)
    ensures r@ == s@;
}

verus!{
// ---------------------------------------------------------------- x25519_dalek / subtle
#[verifier::external_type_specification] #[verifier::external_body] pub struct ExX25519Pk(x25519_dalek::PublicKey);
#[verifier::external_type_specification] #[verifier::external_body] pub struct ExXSk(x25519_dalek::StaticSecret);
#[verifier::external_type_specification] #[verifier::external_body] pub struct ExXSs(x25519_dalek::SharedSecret);
#[verifier::external_type_specification] #[verifier::external_body] pub struct ExChoice(subtle::Choice);
pub uninterp spec fn x_pk_bytes(pk: &x25519_dalek::PublicKey) -> Bytes;
pub uninterp spec fn x_sk_bytes(sk: &x25519_dalek::StaticSecret) -> Bytes;
pub uninterp spec fn x_ss_bytes(ss: &x25519_dalek::SharedSecret) -> Bytes;
// RFC 7748 X25519(k, 9) and X25519(k, u) on 32-byte strings (clamping of k included)
pub uninterp spec fn x_base(sk: Bytes) -> Bytes;
pub uninterp spec fn x_mul(sk: Bytes, pk: Bytes) -> Bytes;
pub assume_specification [x25519_dalek::PublicKey::as_bytes] (pk: &x25519_dalek::PublicKey) -> (r: &[u8; 32]) ensures r@ == x_pk_bytes(pk);
pub assume_specification [x25519_dalek::StaticSecret::as_bytes] (sk: &x25519_dalek::StaticSecret) -> (r: &[u8; 32]) ensures r@ == x_sk_bytes(sk);
pub assume_specification [x25519_dalek::SharedSecret::as_bytes] (ss: &x25519_dalek::SharedSecret) -> (r: &[u8; 32]) ensures r@ == x_ss_bytes(ss);
pub assume_specification [<x25519_dalek::PublicKey as From<[u8; 32]>>::from] (b: [u8; 32]) -> (r: x25519_dalek::PublicKey) ensures x_pk_bytes(&r) == b@;
pub assume_specification [<x25519_dalek::StaticSecret as From<[u8; 32]>>::from] (b: [u8; 32]) -> (r: x25519_dalek::StaticSecret) ensures x_sk_bytes(&r) == b@;
pub assume_specification<'a> [<x25519_dalek::PublicKey as From<&'a x25519_dalek::StaticSecret>>::from] (sk: &'a x25519_dalek::StaticSecret) -> (r: x25519_dalek::PublicKey) ensures x_pk_bytes(&r) == x_base(x_sk_bytes(sk));
pub assume_specification [x25519_dalek::StaticSecret::diffie_hellman] (sk: &x25519_dalek::StaticSecret, pk: &x25519_dalek::PublicKey) -> (r: x25519_dalek::SharedSecret)
    ensures x_ss_bytes(&r) == x_mul(x_sk_bytes(sk), x_pk_bytes(pk)), x_ss_bytes(&r).len() == 32;
pub broadcast axiom fn x_lens(pk: &x25519_dalek::PublicKey, sk: &x25519_dalek::StaticSecret)
    ensures #[trigger] x_pk_bytes(pk).len() == 32, #[trigger] x_sk_bytes(sk).len() == 32;
pub broadcast axiom fn x_ss_len(ss: &x25519_dalek::SharedSecret) ensures #[trigger] x_ss_bytes(ss).len() == 32;
pub broadcast axiom fn x_fn_lens(a: Bytes, b: Bytes) ensures #[trigger] x_mul(a, b).len() == 32;
pub broadcast axiom fn x_base_len(a: Bytes) ensures #[trigger] x_base(a).len() == 32;
pub open spec fn zeros(n: nat) -> Bytes { Seq::new(n, |i: int| 0u8) }
}

verus!{
// ---------------------------------------------------------------- elliptic_curve / p256 / p384 / p521 (opaque)
#[verifier::external_type_specification] #[verifier::external_body] #[verifier::accept_recursive_types(C)]
pub struct ExEcPublicKey<C: ::elliptic_curve::CurveArithmetic>(::elliptic_curve::PublicKey<C>);
#[verifier::external_type_specification] #[verifier::external_body] #[verifier::accept_recursive_types(C)]
pub struct ExEcSecretKey<C: ::elliptic_curve::Curve>(::elliptic_curve::SecretKey<C>);
#[verifier::external_type_specification] #[verifier::external_body] #[verifier::accept_recursive_types(C)]
pub struct ExEcSharedSecret<C: ::elliptic_curve::Curve>(::elliptic_curve::ecdh::SharedSecret<C>);
#[verifier::external_type_specification] #[verifier::external_body] pub struct ExNistP256(p256::NistP256);
#[verifier::external_type_specification] #[verifier::external_body] pub struct ExNistP384(p384::NistP384);
#[verifier::external_type_specification] #[verifier::external_body] pub struct ExNistP521(p521::NistP521);
}

verus!{
// serialized views of the elliptic-curve types (uncompressed SEC1 point / big-endian scalar / x-coordinate)
pub uninterp spec fn ec_pk_bytes<C: ::elliptic_curve::CurveArithmetic>(pk: &::elliptic_curve::PublicKey<C>) -> Bytes;
pub uninterp spec fn ec_sk_bytes<C: ::elliptic_curve::Curve>(sk: &::elliptic_curve::SecretKey<C>) -> Bytes;
pub uninterp spec fn ec_ss_bytes<C: ::elliptic_curve::Curve>(ss: &::elliptic_curve::ecdh::SharedSecret<C>) -> Bytes;
// "bytes is a SEC1 encoding (of any form the parser accepts) of a non-identity point on the curve"
pub uninterp spec fn sec1_valid<C>(b: Bytes) -> bool;
// "bytes is a big-endian scalar in [1, n-1]"
pub uninterp spec fn scalar_ok<C>(b: Bytes) -> bool;
// uncompressed SEC1 encoding of sk*G;  x-coordinate of sk*P
pub uninterp spec fn ec_base<C>(sk: Bytes) -> Bytes;
pub uninterp spec fn ec_dh<C>(sk: Bytes, pk: Bytes) -> Bytes;
// field-element length in bytes of curve C (32 / 48 / 66), cross-checked by Kani `kem_ids_table`
pub uninterp spec fn ec_flen<C>() -> nat;
pub broadcast axiom fn ec_flen_p256() ensures #[trigger] ec_flen::<p256::NistP256>() == 32;
pub broadcast axiom fn ec_flen_p384() ensures #[trigger] ec_flen::<p384::NistP384>() == 48;
pub broadcast axiom fn ec_flen_p521() ensures #[trigger] ec_flen::<p521::NistP521>() == 66;
pub broadcast group ec_flens { ec_flen_p256, ec_flen_p384, ec_flen_p521 }

#[verifier::external_type_specification] #[verifier::external_body]
pub struct ExEcError(::elliptic_curve::Error);

pub assume_specification<C> [::elliptic_curve::PublicKey::<C>::from_sec1_bytes] (bytes: &[u8]) -> (r: Result<::elliptic_curve::PublicKey<C>, ::elliptic_curve::Error>)
    where C: ::elliptic_curve::CurveArithmetic, ::elliptic_curve::FieldBytesSize<C>: ::elliptic_curve::sec1::ModulusSize,
          ::elliptic_curve::AffinePoint<C>: ::elliptic_curve::sec1::FromEncodedPoint<C> + ::elliptic_curve::sec1::ToEncodedPoint<C>,
    ensures
        r is Ok <==> sec1_valid::<C>(bytes@),
        // at the full uncompressed length the accepted encoding is canonical: re-encoding returns it
        r is Ok && bytes@.len() == 1 + 2 * ec_flen::<C>() ==> ec_pk_bytes::<C>(&r.unwrap()) == bytes@;


pub assume_specification<C> [::elliptic_curve::SecretKey::<C>::public_key] (sk: &::elliptic_curve::SecretKey<C>) -> (r: ::elliptic_curve::PublicKey<C>)
    where C: ::elliptic_curve::Curve + ::elliptic_curve::CurveArithmetic,
    ensures ec_pk_bytes::<C>(&r) == ec_base::<C>(ec_sk_bytes::<C>(sk));

}
// ghost helper: names the curve parameter of `elliptic_curve::SecretKey<C>` (type-level only)
pub trait CurveOf { type C: ::elliptic_curve::Curve; }
impl<C: ::elliptic_curve::Curve> CurveOf for ::elliptic_curve::SecretKey<C> { type C = C; }

verus!{
// ---------------------------------------------------------------- sizes of the external algorithm types
// (associated-type projections of impls outside the crate are opaque to Verus; each value is
// cross-checked by the Kani harnesses `aead_ids_and_sizes_table`, `kdf_ids_table`)
pub broadcast axiom fn nh_sha256() ensures #[trigger] nh_of::<sha2::Sha256>() == 32;
pub broadcast axiom fn nh_sha384() ensures #[trigger] nh_of::<sha2::Sha384>() == 48;
pub broadcast axiom fn nh_sha512() ensures #[trigger] nh_of::<sha2::Sha512>() == 64;
pub broadcast axiom fn sz_aes128() ensures #[trigger] nk_of::<aes_gcm::Aes128Gcm>() == 16, #[trigger] nn_of::<aes_gcm::Aes128Gcm>() == 12, #[trigger] nt_of::<aes_gcm::Aes128Gcm>() == 16;
pub broadcast axiom fn sz_aes256() ensures #[trigger] nk_of::<aes_gcm::Aes256Gcm>() == 32, #[trigger] nn_of::<aes_gcm::Aes256Gcm>() == 12, #[trigger] nt_of::<aes_gcm::Aes256Gcm>() == 16;
pub broadcast axiom fn sz_chacha() ensures #[trigger] nk_of::<chacha20poly1305::ChaCha20Poly1305>() == 32, #[trigger] nn_of::<chacha20poly1305::ChaCha20Poly1305>() == 12, #[trigger] nt_of::<chacha20poly1305::ChaCha20Poly1305>() == 16;
pub broadcast axiom fn sz_empty() ensures #[trigger] nk_of::<crate::aead::EmptyAeadImpl>() == 0, #[trigger] nn_of::<crate::aead::EmptyAeadImpl>() == 128, #[trigger] nt_of::<crate::aead::EmptyAeadImpl>() == 0;
pub broadcast group alg_sizes { nh_sha256, nh_sha384, nh_sha512, sz_aes128, sz_aes256, sz_chacha, sz_empty }
}



verus!{
pub assume_specification<T: Default, E> [Result::<T, E>::unwrap_or_default] (r: Result<T, E>) -> (o: T)
    ensures r matches Ok(v) ==> o == v;
}
