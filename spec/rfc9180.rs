// RFC 9180 / RFC 5869 specification functions: the oracle.  Written from the RFC text, never derived
// from the code under verification.  HKDF, the AEADs and the DH groups are uninterpreted.
verus!{
pub type Bytes = vstd::seq::Seq<u8>;

// ---- RFC 5869 / RFC 5116 / DH primitives (uninterpreted) ----
pub uninterp spec fn hkdf_extract(nh: nat, salt: Bytes, ikm: Bytes) -> Bytes;
pub uninterp spec fn hkdf_expand(nh: nat, prk: Bytes, info: Bytes, len: nat) -> Bytes;

// ---- RFC 9180 §4: I2OSP, xor, labels ----
pub open spec fn i2osp(n: nat, len: nat) -> Bytes decreases len {
    if len == 0 { Seq::empty() } else { i2osp(n / 256, (len - 1) as nat).push((n % 256) as u8) }
}
pub open spec fn xor_seq(a: Bytes, b: Bytes) -> Bytes { Seq::new(a.len(), |i: int| a[i] ^ b[i]) }

// "HPKE-v1"
pub open spec fn version_label() -> Bytes { seq![0x48u8,0x50,0x4b,0x45,0x2d,0x76,0x31] }

// def LabeledExtract(salt, label, ikm): Extract(salt, concat("HPKE-v1", suite_id, label, ikm))
pub open spec fn labeled_extract_spec(nh: nat, salt: Bytes, suite_id: Bytes, label: Bytes, ikm: Bytes) -> Bytes {
    hkdf_extract(nh, salt, version_label() + suite_id + label + ikm)
}
// def LabeledExpand(prk, label, info, L): Expand(prk, concat(I2OSP(L, 2), "HPKE-v1", suite_id, label, info), L)
pub open spec fn labeled_expand_spec(nh: nat, prk: Bytes, suite_id: Bytes, label: Bytes, info: Bytes, len: nat) -> Bytes {
    hkdf_expand(nh, prk, i2osp(len, 2) + version_label() + suite_id + label + info, len)
}

// ---- labels (ASCII) ----
pub open spec fn L_PSK_ID_HASH() -> Bytes { seq![0x70u8,0x73,0x6b,0x5f,0x69,0x64,0x5f,0x68,0x61,0x73,0x68] } // "psk_id_hash"
pub open spec fn L_INFO_HASH() -> Bytes { seq![0x69u8,0x6e,0x66,0x6f,0x5f,0x68,0x61,0x73,0x68] }             // "info_hash"
pub open spec fn L_SECRET() -> Bytes { seq![0x73u8,0x65,0x63,0x72,0x65,0x74] }                               // "secret"
pub open spec fn L_KEY() -> Bytes { seq![0x6bu8,0x65,0x79] }                                                 // "key"
pub open spec fn L_BASE_NONCE() -> Bytes { seq![0x62u8,0x61,0x73,0x65,0x5f,0x6e,0x6f,0x6e,0x63,0x65] }       // "base_nonce"
pub open spec fn L_EXP() -> Bytes { seq![0x65u8,0x78,0x70] }                                                 // "exp"
pub open spec fn L_SEC() -> Bytes { seq![0x73u8,0x65,0x63] }                                                 // "sec"
pub open spec fn L_EAE_PRK() -> Bytes { seq![0x65u8,0x61,0x65,0x5f,0x70,0x72,0x6b] }                         // "eae_prk"
pub open spec fn L_SHARED_SECRET() -> Bytes { seq![0x73u8,0x68,0x61,0x72,0x65,0x64,0x5f,0x73,0x65,0x63,0x72,0x65,0x74] } // "shared_secret"
pub open spec fn L_DKP_PRK() -> Bytes { seq![0x64u8,0x6b,0x70,0x5f,0x70,0x72,0x6b] }                         // "dkp_prk"
pub open spec fn L_SK() -> Bytes { seq![0x73u8,0x6b] }                                                       // "sk"
pub open spec fn L_CANDIDATE() -> Bytes { seq![0x63u8,0x61,0x6e,0x64,0x69,0x64,0x61,0x74,0x65] }             // "candidate"

// ---- suite identifiers: §5.1 and §4.1 ----
pub open spec fn full_suite_id_spec(kem: u16, kdf: u16, aead: u16) -> Bytes {
    seq![0x48u8,0x50,0x4b,0x45] + i2osp(kem as nat, 2) + i2osp(kdf as nat, 2) + i2osp(aead as nat, 2)   // "HPKE"
}
pub open spec fn kem_suite_id_spec(kem: u16) -> Bytes { seq![0x4bu8,0x45,0x4d] + i2osp(kem as nat, 2) } // "KEM"

// ---- §4.1 ExtractAndExpand ----
pub open spec fn extract_and_expand_spec(nh: nat, dh: Bytes, suite: Bytes, kem_context: Bytes, len: nat) -> Bytes {
    labeled_expand_spec(nh, labeled_extract_spec(nh, Bytes::empty(), suite, L_EAE_PRK(), dh), suite, L_SHARED_SECRET(), kem_context, len)
}

// ---- §5.1 KeySchedule: returns (key, base_nonce, exporter_secret) ----
pub open spec fn ks_context(nh: nat, suite: Bytes, mode: u8, info: Bytes, psk_id: Bytes) -> Bytes {
    seq![mode] + labeled_extract_spec(nh, Bytes::empty(), suite, L_PSK_ID_HASH(), psk_id)
               + labeled_extract_spec(nh, Bytes::empty(), suite, L_INFO_HASH(), info)
}
pub open spec fn ks_secret(nh: nat, suite: Bytes, shared_secret: Bytes, psk: Bytes) -> Bytes {
    labeled_extract_spec(nh, shared_secret, suite, L_SECRET(), psk)
}
pub open spec fn key_schedule_spec(nh: nat, suite: Bytes, mode: u8, shared_secret: Bytes, info: Bytes, psk: Bytes, psk_id: Bytes, nk: nat, nn: nat) -> (Bytes, Bytes, Bytes) {
    let ksc = ks_context(nh, suite, mode, info, psk_id);
    let secret = ks_secret(nh, suite, shared_secret, psk);
    (labeled_expand_spec(nh, secret, suite, L_KEY(), ksc, nk),
     labeled_expand_spec(nh, secret, suite, L_BASE_NONCE(), ksc, nn),
     labeled_expand_spec(nh, secret, suite, L_EXP(), ksc, nh))
}

// ---- §5.2 ComputeNonce ----
pub open spec fn compute_nonce_spec(base: Bytes, seq: nat) -> Bytes { xor_seq(base, i2osp(seq, base.len())) }

// ---- §5.3 Export ----
pub open spec fn export_spec(nh: nat, exporter_secret: Bytes, suite: Bytes, ctx: Bytes, len: nat) -> Bytes {
    labeled_expand_spec(nh, exporter_secret, suite, L_SEC(), ctx, len)
}

// ---- §5 Table 1: mode bytes ----
pub open spec fn MODE_BASE() -> u8 { 0x00 }
pub open spec fn MODE_PSK() -> u8 { 0x01 }
pub open spec fn MODE_AUTH() -> u8 { 0x02 }
pub open spec fn MODE_AUTH_PSK() -> u8 { 0x03 }

// ---- §7.1.3 DeriveKeyPair ----
pub open spec fn dkp_prk_spec(nh: nat, suite: Bytes, ikm: Bytes) -> Bytes {
    labeled_extract_spec(nh, Bytes::empty(), suite, L_DKP_PRK(), ikm)
}
// X25519/X448:  sk = LabeledExpand(dkp_prk, "sk", "", Nsk)
pub open spec fn dkp_x_sk_spec(nh: nat, suite: Bytes, ikm: Bytes, nsk: nat) -> Bytes {
    labeled_expand_spec(nh, dkp_prk_spec(nh, suite, ikm), suite, L_SK(), Bytes::empty(), nsk)
}
// NIST: bytes = LabeledExpand(dkp_prk, "candidate", I2OSP(counter, 1), Nsk); bytes[0] &= bitmask
// (I2OSP(counter, 1) is the single byte `counter`; spec/lemmas.rs lemma_i2osp_one proves i2osp(c, 1) == [c])
pub open spec fn dkp_candidate_spec(nh: nat, suite: Bytes, ikm: Bytes, counter: nat, nsk: nat, bitmask: u8) -> Bytes {
    let b = labeled_expand_spec(nh, dkp_prk_spec(nh, suite, ikm), suite, L_CANDIDATE(), seq![counter as u8], nsk);
    b.update(0, b[0] & bitmask)
}
// ghost helper used only to seed solver triggers in the candidate-loop invariant (always true)
pub open spec fn trig(b: bool) -> bool { true }
}

verus!{
// ---- RFC 5116 AEAD (uninterpreted; `enc` is the keyed AEAD instance) ----
// `I` names the algorithm; an AEAD instance behaves as a function of the key it was created from
pub uninterp spec fn aead_key_of<I: ?Sized>(enc: &I) -> Bytes;
// Seal(key, nonce, aad, pt) -> Some((ct, tag)) | None (SealError)
pub uninterp spec fn aead_seal_spec<I: ?Sized>(key: Bytes, nonce: Bytes, aad: Bytes, pt: Bytes) -> Option<(Bytes, Bytes)>;
// Open(key, nonce, aad, ct, tag) -> Some(pt) | None (OpenError)
pub uninterp spec fn aead_open_spec<I: ?Sized>(key: Bytes, nonce: Bytes, aad: Bytes, ct: Bytes, tag: Bytes) -> Option<Bytes>;
// the caller's RNG as an infinite byte stream
pub uninterp spec fn rng_stream<R: ?Sized>(r: &R) -> Bytes;
}

verus!{
// ---- §5.2: the abstract Context<ROLE> state (key, base_nonce, seq, exporter_secret) plus what the
// implementation adds: the latched message-limit flag and the suite id used by Export ----
pub struct CtxView {
    pub overflowed: bool,
    pub seq: nat,
    pub key: Bytes,
    pub base_nonce: Bytes,
    pub exporter_secret: Bytes,
    pub suite_id: Bytes,
}
// state after one successful seal/open: seq+1, or the latch once seq 2^64-1 has been used
pub open spec fn ctx_advance(v: CtxView) -> CtxView {
    if v.seq >= 0xffff_ffff_ffff_ffff { CtxView { overflowed: true, ..v } } else { CtxView { seq: v.seq + 1, ..v } }
}
}

verus!{
// ---- §4.1 DHKEM(Group, KDF): Encap / AuthEncap / Decap / AuthDecap over serialized keys ----
// The group enters through the trait-level spec functions of `DhKeyExchange`:
//   s_pk_of(skm) = SerializePublicKey(pk(DeserializePrivateKey(skm)))
//   s_dh(skm, pkm) = Some(DH(sk, pk)) serialized (Ndh bytes), or None where the RFC demands an abort
pub open spec fn dhkem_shared_secret(nh: nat, kem_id: u16, dh: Bytes, kem_context: Bytes) -> Bytes {
    extract_and_expand_spec(nh, dh, kem_suite_id_spec(kem_id), kem_context, nh)   // Nsecret = Nh
}
// sender = None: Encap(pkR) with ephemeral skE;  sender = Some((skS, pkSm)): AuthEncap(pkR, skS)
pub open spec fn dhkem_encap_spec<Kex: crate::dhkex::DhKeyExchange>(nh: nat, kem_id: u16, pk_rm: Bytes, sender: Option<(Bytes, Bytes)>, sk_e: Bytes) -> Option<(Bytes, Bytes)> {
    let enc = Kex::s_pk_of(sk_e);
    match sender {
        None => match Kex::s_dh(sk_e, pk_rm) {
            Some(dh) => Some((dhkem_shared_secret(nh, kem_id, dh, enc + pk_rm), enc)),
            None => None,
        },
        Some(s) => match (Kex::s_dh(sk_e, pk_rm), Kex::s_dh(s.0, pk_rm)) {
            (Some(dh_e), Some(dh_s)) => Some((dhkem_shared_secret(nh, kem_id, dh_e + dh_s, enc + pk_rm + s.1), enc)),
            _ => None,
        },
    }
}
// pk_sm = None: Decap(enc, skR);  Some(pkSm): AuthDecap(enc, skR, pkS)
pub open spec fn dhkem_decap_spec<Kex: crate::dhkex::DhKeyExchange>(nh: nat, kem_id: u16, sk_r: Bytes, pk_sm: Option<Bytes>, enc: Bytes) -> Option<Bytes> {
    let pk_rm = Kex::s_pk_of(sk_r);
    match pk_sm {
        None => match Kex::s_dh(sk_r, enc) {
            Some(dh) => Some(dhkem_shared_secret(nh, kem_id, dh, enc + pk_rm)),
            None => None,
        },
        Some(pks) => match (Kex::s_dh(sk_r, enc), Kex::s_dh(sk_r, pks)) {
            (Some(dh_e), Some(dh_s)) => Some(dhkem_shared_secret(nh, kem_id, dh_e + dh_s, enc + pk_rm + pks)),
            _ => None,
        },
    }
}

// ---- §5.1 SetupS / SetupR results as an abstract context ----
pub open spec fn ctx_from_schedule(ks: (Bytes, Bytes, Bytes), suite: Bytes) -> CtxView {
    CtxView { overflowed: false, seq: 0, key: ks.0, base_nonce: ks.1, exporter_secret: ks.2, suite_id: suite }
}
}

verus!{
// ---- §7.1.3 DeriveKeyPair for the NIST curves: the result is the candidate of the FIRST counter in 0..=255
// whose masked candidate is a valid scalar ("while sk == 0 or sk >= order"); if there is none the RFC raises
// DeriveKeyPairError (probability < 2^-8192) and the implementation diverges ----
pub open spec fn nist_cand_ok<C>(nh: nat, suite: Bytes, ikm: Bytes, c: nat, nsk: nat, bitmask: u8) -> bool {
    scalar_ok::<C>(dkp_candidate_spec(nh, suite, ikm, c, nsk, bitmask))
}
pub open spec fn nist_dkp_is_first<C>(nh: nat, suite: Bytes, ikm: Bytes, nsk: nat, bitmask: u8, c: nat) -> bool {
    &&& c <= 255
    &&& nist_cand_ok::<C>(nh, suite, ikm, c, nsk, bitmask)
    &&& forall|d: nat| d < c ==> !(#[trigger] nist_cand_ok::<C>(nh, suite, ikm, d, nsk, bitmask))
}
}

verus!{
// ---- §5.2 ContextS.Seal / ContextR.Open as transition functions on the abstract context,
// including the implementation's message-limit behaviour (refuse forever once 2^64 messages were processed) ----
pub open spec fn ctx_seal_spec<I: ?Sized>(v: CtxView, aad: Bytes, pt: Bytes) -> (CtxView, Result<(Bytes, Bytes), crate::HpkeError>) {
    if v.overflowed { (v, Err(crate::HpkeError::MessageLimitReached)) }
    else {
        match aead_seal_spec::<I>(v.key, compute_nonce_spec(v.base_nonce, v.seq), aad, pt) {
            None => (v, Err(crate::HpkeError::SealError)),
            Some(c) => (ctx_advance(v), Ok(c)),
        }
    }
}
pub open spec fn ctx_open_spec<I: ?Sized>(v: CtxView, aad: Bytes, ct: Bytes, tag: Bytes) -> (CtxView, Result<Bytes, crate::HpkeError>) {
    if v.overflowed { (v, Err(crate::HpkeError::MessageLimitReached)) }
    else {
        match aead_open_spec::<I>(v.key, compute_nonce_spec(v.base_nonce, v.seq), aad, ct, tag) {
            None => (v, Err(crate::HpkeError::OpenError)),
            Some(p) => (ctx_advance(v), Ok(p)),
        }
    }
}
// the allocating ContextR.Open: tag = last Nt bytes, message = the rest; shorter inputs are OpenErrors
pub open spec fn ctx_open_alloc_spec<I: ?Sized>(v: CtxView, aad: Bytes, c: Bytes, nt: nat) -> (CtxView, Result<Bytes, crate::HpkeError>) {
    if v.overflowed { (v, Err(crate::HpkeError::MessageLimitReached)) }
    else if c.len() < nt { (v, Err(crate::HpkeError::OpenError)) }
    else { ctx_open_spec::<I>(v, aad, c.subrange(0, c.len() - nt), c.subrange(c.len() - nt, c.len() as int)) }
}
}
