// N4: crate-local replacements for the std panic-family macros.  `assert!`/`assert_eq!` become the
// proof obligation "cannot fail" (call of a function that requires false); an explicit `panic!`
// becomes explicit divergence (no precondition, returns `!`).
use vstd::prelude::*;
verus!{
#[verifier::external_body]
pub fn verif_panic() -> !
    requires false,
{ panic!() }

#[verifier::external_body]
pub fn verif_diverge() -> !
{ panic!() }
}
#[macro_export]
macro_rules! assert {
    ($c:expr $(,)?) => { if !($c) { crate::verif_shim::verif_panic() } };
    ($c:expr, $($rest:tt)+) => { if !($c) { crate::verif_shim::verif_panic() } };
}
#[macro_export]
macro_rules! assert_eq {
    ($a:expr, $b:expr $(,)?) => { if !($a == $b) { crate::verif_shim::verif_panic() } };
    ($a:expr, $b:expr, $($rest:tt)+) => { if !($a == $b) { crate::verif_shim::verif_panic() } };
}
#[macro_export]
macro_rules! panic {
    ($($rest:tt)*) => { crate::verif_shim::verif_diverge() };
}
