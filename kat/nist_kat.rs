// ---- /verif/kat/nist_kat.rs: appended to src/dhkex/ecdh_nistp.rs of a scratch copy; SEC 2 / FIPS 186-4 base points.
// BOUNDED stand-in (one input per curve, native run), NOT a proof: the bodies of the NIST `write_exact` functions are one-line
// delegations to the dependency encoders and are TRUSTED in the Verus run (contracts/c_nistp.py).  This run pins the trusted
// contract `write_exact == uncompressed SEC1 / big-endian scalar / x-coordinate` on the published generator of each curve:
// sk = 1  =>  pk = 04 || Gx || Gy,  DH(1, G) = Gx, and every serialisation re-parses to an equal value.
#[cfg(test)]
mod verif_nist_kat {
    use crate::{dhkex::DhKeyExchange, Deserializable, Serializable};
    use hex_literal::hex;

    fn check<Dh: DhKeyExchange>(g: &[u8], nsk: usize) {
        let nf = (g.len() - 1) / 2;
        let mut one = [0u8; 66];
        one[nsk - 1] = 1;
        let sk = Dh::PrivateKey::from_bytes(&one[..nsk]).expect("scalar 1 is a valid private key");
        assert_eq!(sk.to_bytes().as_slice(), &one[..nsk], "private key does not re-serialise to the accepted bytes");
        let pk = Dh::sk_to_pk(&sk);
        let pkb = pk.to_bytes();
        assert_eq!(pkb.as_slice(), g, "pk(1) is not the uncompressed SEC1 encoding of the generator");
        let pk2 = Dh::PublicKey::from_bytes(g).expect("the generator is a valid public key");
        assert_eq!(pk2.to_bytes().as_slice(), g, "accepted public key does not re-serialise to the identical bytes");
        let mut buf = [0u8; 133];
        pk2.write_exact(&mut buf[..g.len()]);
        assert_eq!(&buf[..g.len()], g);
        let ss = Dh::dh(&sk, &pk2).expect("DH(1, G) is not the identity");
        assert_eq!(ss.to_bytes().as_slice(), &g[1..1 + nf], "DH(1, G) does not serialise to the x-coordinate of G");
        // lengths other than Npk / Nsk are rejected with IncorrectInputLength(expected, given)
        assert_eq!(Dh::PublicKey::from_bytes(&g[..g.len() - 1]).err(), Some(crate::HpkeError::IncorrectInputLength(g.len(), g.len() - 1)));
        assert_eq!(Dh::PrivateKey::from_bytes(&one[..nsk - 1]).err(), Some(crate::HpkeError::IncorrectInputLength(nsk, nsk - 1)));
        // compressed encodings are not accepted (RFC 9180 §7.1.1: uncompressed only)
        let mut c = [0u8; 67];
        c[0] = 0x02 + (g[g.len() - 1] & 1);
        c[1..1 + nf].copy_from_slice(&g[1..1 + nf]);
        assert!(Dh::PublicKey::from_bytes(&c[..1 + nf]).is_err());
    }

    #[cfg(feature = "p256")]
    #[test]
    fn verif_nist_kat_p256() {
        check::<super::p256::DhP256>(&hex!("04 6B17D1F2E12C4247F8BCE6E563A440F277037D812DEB33A0F4A13945D898C296 4FE342E2FE1A7F9B8EE7EB4A7C0F9E162BCE33576B315ECECBB6406837BF51F5"), 32);
    }
    #[cfg(feature = "p384")]
    #[test]
    fn verif_nist_kat_p384() {
        check::<super::p384::DhP384>(&hex!("04 AA87CA22BE8B05378EB1C71EF320AD746E1D3B628BA79B9859F741E082542A385502F25DBF55296C3A545E3872760AB7 3617DE4A96262C6F5D9E98BF9292DC29F8F41DBD289A147CE9DA3113B5F0B8C00A60B1CE1D7E819D7A431D7C90EA0E5F"), 48);
    }
    #[cfg(feature = "p521")]
    #[test]
    fn verif_nist_kat_p521() {
        check::<super::p521::DhP521>(&hex!("04 00C6858E06B70404E9CD9E3ECB662395B4429C648139053FB521F828AF606B4D3DBAA14B5E77EFE75928FE1DC127A2FFA8DE3348B3C1856A429BF97E7E31C2E5BD66 011839296A789A3BC0045C8A5FB42C7D1BD998F54449579B446817AFBD17273E662C97EE72995EF42640C550B9013FAD0761353C7086A272C24088BE94769FD16650"), 66);
    }
}
