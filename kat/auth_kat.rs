
// ---- /verif/kat/auth_kat.rs: appended to src/kem/dhkem.rs of a scratch copy and run natively, ONLY after a Verus obligation of
// encap_with_eph / decap_body has already failed (tools/check.py).  Not a proof obligation and never run on a tree that verifies:
// it looks for a concrete failing input for "the shared secret is the RFC 9180 section 4.1 value".  It recomputes, from the
// crate's own DH and ExtractAndExpand primitives (which the failed obligations do not concern),
//     Encap / Decap:          ExtractAndExpand(DH(skE,pkR),                 "KEM" || I2OSP(kem_id,2), enc || pkRm)
//     AuthEncap / AuthDecap:  ExtractAndExpand(DH(skE,pkR) || DH(skS,pkR),  "KEM" || I2OSP(kem_id,2), enc || pkRm || pkSm)
// for fixed key pairs and compares with what encap_with_eph() and decap() return.
#[cfg(test)]
mod verif_auth_kat {
    extern crate std as verif_std; // the crate is no_std unless feature "std"; a test build always has std
    use crate::{
        dhkex::DhKeyExchange,
        kdf::{extract_and_expand, HkdfSha256},
        kem::Kem as KemTrait,
        Serializable, Vec,
    };

    macro_rules! recompute {
        ($name:ident, $kem:ty, $dh:ty, $modname:ident, $kem_id:expr) => {
            #[test]
            fn $name() {
                type K = $kem;
                let (sk_r, pk_r) = K::derive_keypair(b"verif kat recipient ikm");
                let (sk_s, pk_s) = K::derive_keypair(b"verif kat sender ikm");
                let suite_id: [u8; 5] = [0x4b, 0x45, 0x4d, ($kem_id >> 8) as u8, ($kem_id & 0xff) as u8];
                let mut bad: Vec<verif_std::string::String> = Vec::new();
                for auth in [false, true] {
                    let (sk_e, pk_e) = K::derive_keypair(b"verif kat ephemeral ikm");
                    let mut dh = Vec::new();
                    dh.extend_from_slice(&<$dh>::dh(&sk_e, &pk_r).unwrap().to_bytes());
                    let mut kem_context = Vec::new();
                    kem_context.extend_from_slice(&pk_e.to_bytes());
                    kem_context.extend_from_slice(&pk_r.to_bytes());
                    if auth {
                        dh.extend_from_slice(&<$dh>::dh(&sk_s, &pk_r).unwrap().to_bytes());
                        kem_context.extend_from_slice(&pk_s.to_bytes());
                    }
                    let mut expected = [0u8; 32];
                    extract_and_expand::<HkdfSha256>(&dh, &suite_id, &kem_context, &mut expected).unwrap();
                    let (ss_enc, enc) = crate::kem::$modname::encap_with_eph(
                        &pk_r, if auth { Some((&sk_s, &pk_s)) } else { None }, sk_e).unwrap();
                    let ss_dec = K::decap(&sk_r, if auth { Some(&pk_s) } else { None }, &enc).unwrap();
                    if enc.to_bytes().as_slice() != pk_e.to_bytes().as_slice() {
                        bad.push(verif_std::format!("MISMATCH encap_with_eph enc != pkEm (auth = {})", auth));
                    }
                    if ss_enc.0.as_slice() != &expected[..] {
                        bad.push(verif_std::format!("MISMATCH encap_with_eph shared secret != RFC 9180 section 4.1 value (auth = {}): got {:02x?}, RFC {:02x?}", auth, ss_enc.0.as_slice(), &expected[..]));
                    }
                    if ss_dec.0.as_slice() != &expected[..] {
                        bad.push(verif_std::format!("MISMATCH decap_body (decap) shared secret != RFC 9180 section 4.1 value (auth = {}): got {:02x?}, RFC {:02x?}", auth, ss_dec.0.as_slice(), &expected[..]));
                    }
                }
                for b in bad.iter() { verif_std::println!("{}", b); }
                assert!(bad.is_empty(), "{} mismatch(es) against RFC 9180 section 4.1", bad.len());
            }
        };
    }
    #[cfg(feature = "x25519")]
    recompute!(verif_auth_recompute_x25519, crate::kem::X25519HkdfSha256, crate::dhkex::x25519::X25519, x25519_hkdfsha256, 0x0020u16);
    #[cfg(feature = "p256")]
    recompute!(verif_auth_recompute_p256, crate::kem::DhP256HkdfSha256, crate::dhkex::ecdh_nistp::p256::DhP256, dhp256_hkdfsha256, 0x0010u16);
}
