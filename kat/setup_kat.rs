// ---- /verif/kat/setup_kat.rs: appended to src/setup.rs of a scratch copy; RFC 9180 Appendix A.1.1 known answers.
// Not a proof: (a) validates the transcription of spec/rfc9180.rs (the code is proved equal to the spec functions, and the code
// reproduces the RFC's published vector), (b) supplies a concrete failing input when a C02/C03 obligation fails.
#[cfg(test)]
mod verif_kat {
    use super::*;
    use crate::{aead::AesGcm128, kdf::HkdfSha256, kem::X25519HkdfSha256, Deserializable, Serializable, OpModeR, OpModeS};
    use hex_literal::hex;
    type Kem = X25519HkdfSha256;
    /// RFC 9180 Appendix A.1.1 (DHKEM(X25519, HKDF-SHA256), HKDF-SHA256, AES-128-GCM, mode_base)
    #[test]
    fn rfc9180_a_1_1() {
        let info = hex!("4f6465206f6e2061204772656369616e2055726e");
        let ikm_e = hex!("7268600d403fce431561aef583ee1613527cff655c1343f29812e66706df3234");
        let ikm_r = hex!("6db9df30aa07dd42ee5e8181afdb977e538f5e1fec8a06223f33f7013e525037");
        let (sk_e, pk_e) = Kem::derive_keypair(&ikm_e);
        let (sk_r, pk_r) = Kem::derive_keypair(&ikm_r);
        assert_eq!(pk_e.to_bytes().as_slice(), &hex!("37fda3567bdbd628e88668c3c8d7e97d1d1253b6d4ea6d44c150f741f1bf4431"));
        assert_eq!(sk_e.to_bytes().as_slice(), &hex!("52c4a758a802cd8b936eceea314432798d5baf2d7e9235dc084ab1b9cfa2f736"));
        assert_eq!(pk_r.to_bytes().as_slice(), &hex!("3948cfe0ad1ddb695d780e59077195da6c56506b027329794ab02bca80815c4d"));
        assert_eq!(sk_r.to_bytes().as_slice(), &hex!("4612c550263fc8ad58375df3f557aac531d26850903e55a9f23f21d8534e8ac8"));
        let (ss, enc) = crate::kem::x25519_hkdfsha256::encap_with_eph(&pk_r, None, sk_e).unwrap();
        assert_eq!(ss.0.as_slice(), &hex!("fe0e18c9f024ce43799ae393c7e8fe8fce9d218875e8227b0187c04e7d2ea1fc"));
        assert_eq!(enc.to_bytes().as_slice(), &hex!("37fda3567bdbd628e88668c3c8d7e97d1d1253b6d4ea6d44c150f741f1bf4431"));
        let ss2 = Kem::decap(&sk_r, None, &enc).unwrap();
        assert_eq!(ss2.0, ss.0);
        let ctx: AeadCtx<AesGcm128, HkdfSha256, Kem> = derive_enc_ctx(&OpModeS::<Kem>::Base, ss, &info);
        let mut s: AeadCtxS<_, _, _> = ctx.into();
        let mut exp = [0u8; 32];
        s.export(&hex!(""), &mut exp).unwrap();
        assert_eq!(exp, hex!("3853fe2b4035195a573ffc53856e77058e15d9ea064de3e59f4961d0095250ee"));
        let ct = s.seal(&hex!("4265617574792069732074727574682c20747275746820626561757479"), &hex!("436f756e742d30")).unwrap();
        assert_eq!(ct.as_slice(), &hex!("f938558b5d72f1a23810b4be2ab4f84331acc02fc97babc53a52ae8218a355a96d8770ac83d07bea87e13c512a")[..]);
        let mut r = setup_receiver::<AesGcm128, HkdfSha256, Kem>(&OpModeR::Base, &sk_r, &enc, &info).unwrap();
        assert_eq!(r.open(&ct, &hex!("436f756e742d30")).unwrap(), hex!("4265617574792069732074727574682c20747275746820626561757479"));
    }
}
