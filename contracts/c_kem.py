"""Contracts for src/kem.rs."""

def apply(F):
    F.use()
    F.wrap([], r'pub trait Kem\b')
    F.wrap([], r'pub struct SharedSecret\b')
