"""Contracts for src/kem.rs (the KEM interface, RFC 9180 §4)."""

NSK = 'tnum::<<Self::PrivateKey as Serializable>::OutputSize>()'

def apply(F):
    F.use()
    T = [r'pub trait Kem\b']
    F.insert_in([], T[0], '''
    /// ghost: SerializePublicKey(pk(sk)) over the serialized private key
    spec fn k_pk_of(sk: Bytes) -> Bytes;
    /// ghost: DeriveKeyPair(ikm) -> (serialized sk, serialized pk)
    spec fn k_derive(ikm: Bytes) -> (Bytes, Bytes);
    /// ghost: Encap/AuthEncap with ephemeral private key sk_e -> Some((shared_secret, enc)) | None
    spec fn k_encap(pk_rm: Bytes, sender: Option<(Bytes, Bytes)>, sk_e: Bytes) -> Option<(Bytes, Bytes)>;
    /// ghost: Decap/AuthDecap -> Some(shared_secret) | None
    spec fn k_decap(sk_r: Bytes, pk_sm: Option<Bytes>, enc: Bytes) -> Option<Bytes>;
''')
    F.contract(T, r'fn sk_to_pk\b', ret='r', clauses='''
        ensures /*@C03 ~C01*/ r.ser() == Self::k_pk_of(sk.ser());
'''.rstrip().rstrip(';'))
    F.contract(T, r'fn derive_keypair\b', ret='r', clauses='''
        ensures /*@C03 C02 ~C01*/ (r.0.ser(), r.1.ser()) == Self::k_derive(ikm@),
                /*@C03*/ r.1.ser() == Self::k_pk_of(r.0.ser())
''')
    F.contract(T, r'fn gen_keypair<R: CryptoRng \+ RngCore>', ret='r', clauses=f'''
        ensures
            /*@C03 C02 C18 ~C01*/ (r.0.ser(), r.1.ser()) == Self::k_derive(rng_stream::<R>(old(csprng)).take({NSK} as int)),
            /*@C03*/ r.1.ser() == Self::k_pk_of(r.0.ser()),
            /*@C18*/ rng_stream::<R>(final(csprng)) == rng_stream::<R>(old(csprng)).skip({NSK} as int),
''')
    F.contract(T, r'fn decap\b', ret='r', clauses='''
        ensures
            /*@C03 C10 C13*/ r is Ok <==> Self::k_decap(sk_recip.ser(), opt_ser(pk_sender_id), encapped_key.ser()) is Some,
            /*@C10 C13*/ r is Err ==> r == Err::<SharedSecret<Self>, HpkeError>(HpkeError::DecapError),
            /*@C03 C01 C02 C08*/ r is Ok ==> r.unwrap().0.gv() == Self::k_decap(sk_recip.ser(), opt_ser(pk_sender_id), encapped_key.ser()).unwrap()
''')
    F.contract(T, r'fn encap<R: CryptoRng \+ RngCore>', ret='r', clauses=f'''
        ensures
            /*@C18 C02*/ rng_stream::<R>(final(csprng)) == rng_stream::<R>(old(csprng)).skip({NSK} as int),
            /*@C03 C02 C10 C13*/ ({{
                let sk_e = Self::k_derive(rng_stream::<R>(old(csprng)).take({NSK} as int)).0;
                let e = Self::k_encap(pk_recip.ser(), opt_pair_ser(sender_id_keypair), sk_e);
                &&& r is Ok <==> e is Some
                &&& r is Err ==> r == Err::<(SharedSecret<Self>, Self::EncappedKey), HpkeError>(HpkeError::EncapError)
                &&& r is Ok ==> r.unwrap().0.0.gv() == e.unwrap().0 && r.unwrap().1.ser() == e.unwrap().1
            }})
''')
    F.wrap([], T[0])
    F.wrap([], r'pub struct SharedSecret<Kem: KemTrait>')
    F.wrap([], r'impl<Kem: KemTrait> Default for SharedSecret<Kem>')
    F.append('''
verus!{
/// ghost: serialized forms of optional key arguments
pub open spec fn opt_ser<T: Serializable>(o: Option<&T>) -> Option<Bytes> {
    match o { Some(k) => Some(k.ser()), None => None }
}
pub open spec fn opt_pair_ser<S: Serializable, P: Serializable>(o: Option<(&S, &P)>) -> Option<(Bytes, Bytes)> {
    match o { Some(kp) => Some((kp.0.ser(), kp.1.ser())), None => None }
}
}
''')
