"""Contracts for src/dhkex.rs (the Diffie-Hellman group interface used by DHKEM)."""

SK_TO_PK = '''
        ensures /*@C03 ~C01*/ r.ser() == Self::s_pk_of(sk.ser())'''
DH = '''
        ensures /*@C10 C03*/ r is Ok <==> Self::s_dh(sk.ser(), pk.ser()) is Some,
                /*@C03 ~C01*/ r is Ok ==> r.unwrap().ser() == Self::s_dh(sk.ser(), pk.ser()).unwrap()'''
DERIVE = '''
        ensures /*@C03 C02 ~C01*/ (r.0.ser(), r.1.ser()) == Self::s_derive(nh_of::<Kdf::HashImpl>(), suite_id@, ikm@),
                /*@C03*/ r.1.ser() == Self::s_pk_of(r.0.ser())'''

def apply(F):
    F.use()
    F.wrap([], r'pub\(crate\) const MAX_PUBKEY_SIZE')
    F.wrap([], r'pub struct DhError\b')
    T = [r'pub trait DhKeyExchange\b']
    F.insert_in([], T[0], '''
    /// ghost: SerializePublicKey(pk(sk)) as a function of the serialized private key
    spec fn s_pk_of(sk: Bytes) -> Bytes;
    /// ghost: serialized DH(sk, pk) over serialized keys; None where RFC 9180 demands an abort
    spec fn s_dh(sk: Bytes, pk: Bytes) -> Option<Bytes>;
    /// ghost: DeriveKeyPair (RFC 9180 §7.1.3) -> (serialized sk, serialized pk)
    spec fn s_derive(nh: nat, suite_id: Bytes, ikm: Bytes) -> (Bytes, Bytes);
''')
    F.contract(T, r'fn sk_to_pk\b', ret='r', clauses=SK_TO_PK + '\n')
    F.contract(T, r'fn dh\b', ret='r', clauses=DH + '\n')
    F.contract(T, r'fn derive_keypair<Kdf: KdfTrait>', ret='r', clauses='\n        requires kdf_ok::<Kdf>(),' + DERIVE + '\n')
    F.wrap([], T[0])
