"""Contracts for src/single_shot.rs (RFC 9180 §6.1): each single-shot function equals setup followed
by one seal/open, in results and in errors."""
from contracts.c_setup import sched, NSK

IMPL = 'A::AeadImpl'
SENDER = f'''
            let sk_e = Kem::k_derive(rng_stream::<R>(old(csprng)).take({NSK} as int)).0;
            let e = Kem::k_encap(pk_recip.ser(), crate::kem::opt_pair_ser(mode.sender_keypair()), sk_e);'''
RECV = '''
            let d = Kem::k_decap(sk_recip.ser(), crate::kem::opt_ser(mode.sender_pk()), encapped_key.ser());'''

def apply(F):
    F.use()
    F.contract([], r'pub fn single_shot_seal_in_place_detached<A, Kdf, Kem, R>', ret='r', clauses=f'''
    requires suite_ok::<A, Kdf>(),
    ensures
        final(plaintext)@.len() == old(plaintext)@.len(),
        /*@C18*/ rng_stream::<R>(final(csprng)) == rng_stream::<R>(old(csprng)).skip({NSK} as int),
        /*@C14 C01 C02*/ ({{{SENDER}
            &&& e is None ==> r == Err::<(Kem::EncappedKey, AeadTag<A>), HpkeError>(HpkeError::EncapError)
            &&& e is Some ==> ({{
                let c = {sched('mode', 'e.unwrap().0')};
                let s = aead_seal_spec::<{IMPL}>(c.key, compute_nonce_spec(c.base_nonce, 0), aad@, old(plaintext)@);
                &&& s is None ==> r == Err::<(Kem::EncappedKey, AeadTag<A>), HpkeError>(HpkeError::SealError)
                &&& s is Some ==> r is Ok && r.unwrap().0.ser() == e.unwrap().1
                                  && final(plaintext)@ == s.unwrap().0 && r.unwrap().1.v_tag() == s.unwrap().1
            }})
        }}),
''')
    F.wrap([], r'pub fn single_shot_seal_in_place_detached<A, Kdf, Kem, R>')
    F.contract([], r'pub fn single_shot_seal<A, Kdf, Kem, R>', ret='r', clauses=f'''
    requires suite_ok::<A, Kdf>(),
    ensures
        /*@C18*/ rng_stream::<R>(final(csprng)) == rng_stream::<R>(old(csprng)).skip({NSK} as int),
        /*@C14 C01 C02*/ ({{{SENDER}
            &&& e is None ==> r == Err::<(Kem::EncappedKey, crate::Vec<u8>), HpkeError>(HpkeError::EncapError)
            &&& e is Some ==> ({{
                let c = {sched('mode', 'e.unwrap().0')};
                let s = aead_seal_spec::<{IMPL}>(c.key, compute_nonce_spec(c.base_nonce, 0), aad@, plaintext@);
                &&& s is None ==> r == Err::<(Kem::EncappedKey, crate::Vec<u8>), HpkeError>(HpkeError::SealError)
                &&& s is Some ==> r is Ok && r.unwrap().0.ser() == e.unwrap().1
                                  && r.unwrap().1@ == s.unwrap().0 + s.unwrap().1
            }})
        }}),
''')
    F.wrap([], r'pub fn single_shot_seal<A, Kdf, Kem, R>')
    F.contract([], r'pub fn single_shot_open_in_place_detached<A, Kdf, Kem>', ret='r', clauses=f'''
    requires suite_ok::<A, Kdf>(),
    ensures
        final(ciphertext)@.len() == old(ciphertext)@.len(),
        /*@C14 C06 C01 C02*/ ({{{RECV}
            &&& d is None ==> r == Err::<(), HpkeError>(HpkeError::DecapError)
            &&& d is Some ==> ({{
                let c = {sched('mode', 'd.unwrap()')};
                let o = aead_open_spec::<{IMPL}>(c.key, compute_nonce_spec(c.base_nonce, 0), aad@, old(ciphertext)@, tag.v_tag());
                &&& o is None ==> r == Err::<(), HpkeError>(HpkeError::OpenError)
                &&& o is Some ==> r is Ok && final(ciphertext)@ == o.unwrap()
            }})
        }}),
''')
    F.wrap([], r'pub fn single_shot_open_in_place_detached<A, Kdf, Kem>')
    F.contract([], r'pub fn single_shot_open<A, Kdf, Kem>', ret='r', clauses=f'''
    requires suite_ok::<A, Kdf>(),
    ensures
        /*@C14 C06 C13 C01 C02*/ ({{{RECV}
            &&& d is None ==> r == Err::<crate::Vec<u8>, HpkeError>(HpkeError::DecapError)
            &&& d is Some && ciphertext@.len() < nt_of::<{IMPL}>() ==> r == Err::<crate::Vec<u8>, HpkeError>(HpkeError::OpenError)
            &&& d is Some && ciphertext@.len() >= nt_of::<{IMPL}>() ==> ({{
                let c = {sched('mode', 'd.unwrap()')};
                let n = ciphertext@.len() - nt_of::<{IMPL}>();
                let o = aead_open_spec::<{IMPL}>(c.key, compute_nonce_spec(c.base_nonce, 0), aad@,
                                                 ciphertext@.subrange(0, n), ciphertext@.subrange(n, ciphertext@.len() as int));
                &&& o is None ==> r == Err::<crate::Vec<u8>, HpkeError>(HpkeError::OpenError)
                &&& o is Some ==> r is Ok && r.unwrap()@ == o.unwrap()
            }})
        }}),
''')
    F.wrap([], r'pub fn single_shot_open<A, Kdf, Kem>')
