"""Contracts for src/setup.rs (RFC 9180 §5.1 KeySchedule, SetupS/SetupR for the four modes)."""

NH = 'nh_of::<Kdf::HashImpl>()'
NK = 'nk_of::<A::AeadImpl>()'
NN = 'nn_of::<A::AeadImpl>()'
SUITE = 'full_suite_id_spec(Kem::KEM_ID, Kdf::KDF_ID, A::AEAD_ID)'
NSK = 'tnum::<<Kem::PrivateKey as crate::Serializable>::OutputSize>()'

def sched(mode, ss, pub=True):
    m = ('mode_byte', 'psk_bytes', 'psk_id_bytes') if pub else ('m_mode', 'm_psk', 'm_psk_id')
    return (f'ctx_from_schedule(key_schedule_spec({NH}, {SUITE}, {mode}.MODE(), {ss}, info@, '
            f'{mode}.PSK(), {mode}.PSKID(), {NK}, {NN}), {SUITE})').replace('MODE', m[0]).replace('PSKID', m[2]).replace('PSK', m[1])

def apply(F):
    F.use()
    F.wrap([], r'pub\(crate\) struct ExporterSecret<K: KdfTrait>')
    F.wrap([], r'impl<K: KdfTrait> Default for ExporterSecret<K>')

    F.contract([], r'fn derive_enc_ctx<A, Kdf, Kem, O>', ret='r', clauses=f'''
    requires suite_ok::<A, Kdf>(),
    ensures /*@C02 C07 C08 C11 C15 ~C01*/ r.view() == {sched('mode', 'shared_secret.0.gv()', pub=False)},
''')
    F.wrap([], r'fn derive_enc_ctx<A, Kdf, Kem, O>')

    F.contract([], r'pub fn setup_sender<A, Kdf, Kem, R>', ret='r', clauses=f'''
    requires suite_ok::<A, Kdf>(),
    ensures
        /*@C18 C02*/ rng_stream::<R>(final(csprng)) == rng_stream::<R>(old(csprng)).skip({NSK} as int),
        /*@C02 C01 C03 C08 C10 C13 C15*/ ({{
            let sk_e = Kem::k_derive(rng_stream::<R>(old(csprng)).take({NSK} as int)).0;
            let e = Kem::k_encap(pk_recip.ser(), crate::kem::opt_pair_ser(mode.sender_keypair()), sk_e);
            &&& r is Ok <==> e is Some
            &&& r is Err ==> r == Err::<(Kem::EncappedKey, AeadCtxS<A, Kdf, Kem>), HpkeError>(HpkeError::EncapError)
            &&& r is Ok ==> r.unwrap().0.ser() == e.unwrap().1
                         && r.unwrap().1.view() == {sched('mode', 'e.unwrap().0')}
        }}),
''')
    F.wrap([], r'pub fn setup_sender<A, Kdf, Kem, R>')

    F.contract([], r'pub fn setup_receiver<A, Kdf, Kem>', ret='r', clauses=f'''
    requires suite_ok::<A, Kdf>(),
    ensures
        /*@C02 C01 C03 C08 C10 C13 C15*/ ({{
            let d = Kem::k_decap(sk_recip.ser(), crate::kem::opt_ser(mode.sender_pk()), encapped_key.ser());
            &&& r is Ok <==> d is Some
            &&& r is Err ==> r == Err::<AeadCtxR<A, Kdf, Kem>, HpkeError>(HpkeError::DecapError)
            &&& r is Ok ==> r.unwrap().view() == {sched('mode', 'd.unwrap()')}
        }}),
''')
    F.wrap([], r'pub fn setup_receiver<A, Kdf, Kem>')
    F.append('verus!{ broadcast use {ga_len, crate::aead::AeadCtxS::from_spec_view, crate::aead::AeadCtxR::from_spec_view}; }')
