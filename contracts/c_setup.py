"""Contracts for src/setup.rs (RFC 9180 §5.1 KeySchedule, SetupS/SetupR for the four modes)."""

def apply(F):
    F.use()
    F.wrap([], r'pub\(crate\) struct ExporterSecret<K: KdfTrait>')
    F.wrap([], r'impl<K: KdfTrait> Default for ExporterSecret<K>')
