"""Contracts for src/kem/dhkem.rs (macro impl_dhkem!: DHKEM(X25519|P-256|P-384|P-521, HKDF), RFC 9180 §4.1)."""

from contracts.c_lib import from_bytes_clauses
M = [r'macro_rules! impl_dhkem\b', r'pub\(crate\) mod \$mod_name\b']
NH = 'nh_of::<<$kdf as KdfTrait>::HashImpl>()'
KEMID = '<$kem_name as KemTrait>::KEM_ID'
ENCAP = f'dhkem_encap_spec::<$dhkex>({NH}, {KEMID}, pk_recip.ser(), crate::kem::opt_pair_ser(sender_id_keypair), sk_eph.ser())'

NSK = 'tnum::<<PrivateKey as Serializable>::OutputSize>()'
DECAP = f'dhkem_decap_spec::<$dhkex>({NH}, {KEMID}, sk_recip.ser(), crate::kem::opt_ser(pk_sender_id), encapped_key.ser())'

def apply(F):
    F.use(M)
    F.wrap(M, r'pub struct EncappedKey\b')
    S = M + [r'impl Serializable for EncappedKey\b']
    F.insert_in(M, S[-1], '                closed spec fn ser(&self) -> Bytes { self.0.ser() }')
    F.hoist(S, r'fn write_exact\b', 'write_exact_encapped_body', 'EncappedKey', trait='Serializable')
    F.contract(S, r'fn write_exact\b', attrs=['#[verifier::external_body]'], discharged_by='N7 delegation to the verified write_exact_encapped_body')
    F.contract(M, r'fn write_exact_encapped_body\b', clauses='''
                requires old(buf)@.len() == tnum::<<EncappedKey as Serializable>::OutputSize>(),
                ensures /*@C12*/ final(buf)@ == this.ser(),
''')
    F.wrap(M, r'fn write_exact_encapped_body\b')
    F.wrap(M, S[-1])
    D = M + [r'impl Deserializable for EncappedKey\b']
    F.insert_in(M, D[-1], '                // ghost: an encapsulated key is a serialized public key (RFC 9180 §4.1)\n                open spec fn de_valid(b: Bytes) -> bool { <<$dhkex as DhKeyExchange>::PublicKey as Deserializable>::de_valid(b) }')
    F.contract(D, r'fn from_bytes\b', ret='r', clauses=from_bytes_clauses('tnum::<Self::OutputSize>()') + ',\n')
    F.wrap(M, D[-1])
    F.wrap(M, r'pub struct \$kem_name\b')
    F.contract(M, r'pub\(crate\) fn encap_with_eph\b', ret='r', clauses=f'''
                ensures
                    /*@C03 C10 C13*/ r is Ok <==> {ENCAP} is Some,
                    /*@C10 C13*/ r is Err ==> r == Err::<(SharedSecret<$kem_name>, EncappedKey), HpkeError>(HpkeError::EncapError),
                    /*@C03 C02 C01 C08*/ r is Ok ==> r.unwrap().0.0.gv() == {ENCAP}.unwrap().0 && r.unwrap().1.ser() == {ENCAP}.unwrap().1,
''')
    F.wrap(M, r'pub\(crate\) fn encap_with_eph\b')
    K = M + [r'impl KemTrait for \$kem_name\b']
    F.insert_in(M, K[-1], f'''
                // ghost: RFC 9180 §4.1 for this DHKEM instance
                open spec fn k_pk_of(sk: Bytes) -> Bytes {{ <$dhkex as DhKeyExchange>::s_pk_of(sk) }}
                open spec fn k_derive(ikm: Bytes) -> (Bytes, Bytes) {{
                    <$dhkex as DhKeyExchange>::s_derive({NH}, kem_suite_id_spec(Self::KEM_ID), ikm)
                }}
                open spec fn k_encap(pk_rm: Bytes, sender: Option<(Bytes, Bytes)>, sk_e: Bytes) -> Option<(Bytes, Bytes)> {{
                    dhkem_encap_spec::<$dhkex>({NH}, Self::KEM_ID, pk_rm, sender, sk_e)
                }}
                open spec fn k_decap(sk_r: Bytes, pk_sm: Option<Bytes>, enc: Bytes) -> Option<Bytes> {{
                    dhkem_decap_spec::<$dhkex>({NH}, Self::KEM_ID, sk_r, pk_sm, enc)
                }}
''')
    F.attr(K, r'const KEM_ID\b', ['#[verifier::external_body]'])
    F.contract(K, r'fn sk_to_pk\b', ret='r', clauses='\n                    ensures /*@C03 ~C01*/ r.ser() == Self::k_pk_of(sk.ser()),\n')
    # N7 (see decap below): derive_keypair and encap instantiate generics with Self
    F.hoist(K, r'fn derive_keypair\b', 'derive_keypair_body', '$kem_name', trait='KemTrait')
    F.contract(K, r'fn derive_keypair\b', ret='r', attrs=['#[verifier::external_body]'], discharged_by='N7 delegation to the verified derive_keypair_body')
    F.contract(M, r'fn derive_keypair_body\b', ret='r', clauses='''
                ensures /*@C03 C02 ~C01*/ (r.0.ser(), r.1.ser()) == <$kem_name as KemTrait>::k_derive(ikm@),
                        /*@C03*/ r.1.ser() == <$kem_name as KemTrait>::k_pk_of(r.0.ser()),
''')
    F.wrap(M, r'fn derive_keypair_body\b')
    F.hoist(K, r'fn encap<R: CryptoRng \+ RngCore>', 'encap_body', '$kem_name', trait='KemTrait')
    F.contract(K, r'fn encap<R: CryptoRng \+ RngCore>', ret='r', attrs=['#[verifier::external_body]'], discharged_by='N7 delegation to the verified encap_body')
    F.contract(M, r'fn encap_body<R: CryptoRng \+ RngCore>', ret='r', clauses=f'''
                ensures
                    /*@C18 C02*/ rng_stream::<R>(final(csprng)) == rng_stream::<R>(old(csprng)).skip({NSK} as int),
                    /*@C03 C02 C10 C13*/ ({{
                        let sk_e = <$kem_name as KemTrait>::k_derive(rng_stream::<R>(old(csprng)).take({NSK} as int)).0;
                        let e = <$kem_name as KemTrait>::k_encap(pk_recip.ser(), crate::kem::opt_pair_ser(sender_id_keypair), sk_e);
                        &&& r is Ok <==> e is Some
                        &&& r is Err ==> r == Err::<(SharedSecret<$kem_name>, EncappedKey), HpkeError>(HpkeError::EncapError)
                        &&& r is Ok ==> r.unwrap().0.0.gv() == e.unwrap().0 && r.unwrap().1.ser() == e.unwrap().1
                    }}),
''')
    F.wrap(M, r'fn encap_body<R: CryptoRng \+ RngCore>')
    # N7: decap instantiates SharedSecret<Self> inside `impl Kem for Self` (Verus trait-cycle check):
    # its body is hoisted verbatim into the free fn `decap_body`, which is what is verified
    F.hoist(K, r'fn decap\b', 'decap_body', '$kem_name', trait='KemTrait')
    F.contract(K, r'fn decap\b', ret='r', attrs=['#[verifier::external_body]'], discharged_by='N7 delegation to the verified decap_body')
    F.contract(M, r'fn decap_body\b', ret='r', clauses=f'''
                ensures
                    /*@C03 C10 C13*/ r is Ok <==> {DECAP} is Some,
                    /*@C10 C13*/ r is Err ==> r == Err::<SharedSecret<$kem_name>, HpkeError>(HpkeError::DecapError),
                    /*@C03 C01 C02 C08*/ r is Ok ==> r.unwrap().0.gv() == {DECAP}.unwrap(),
''')
    F.wrap(M, r'fn decap_body\b')
    F.wrap(M, K[-1])
    F.append('''
            verus!{ broadcast use {tnum_values, ga_len, alg_sizes}; }
''', scopes=M)
