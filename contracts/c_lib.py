"""Contracts for src/lib.rs: error type, Serializable / Deserializable."""

def from_bytes_clauses(N='crate::verif_shim::tnum::<Self::OutputSize>()'):
    """trait-level contract of Deserializable::from_bytes; restated verbatim on every impl (see c_kdf)"""
    return f'''
        ensures
            /*@C09 C12 C13*/ encoded@.len() != {N} ==> r == Err::<Self, HpkeError>(HpkeError::IncorrectInputLength({N} as usize, encoded@.len() as usize)),
            /*@C09 C12 C13*/ encoded@.len() == {N} ==> (r is Ok <==> Self::de_valid(encoded@)),
            /*@C09*/ encoded@.len() == {N} && r is Err ==> r == Err::<Self, HpkeError>(HpkeError::ValidationError),
            /*@C09 C12 C06*/ r is Ok ==> r.unwrap().ser() == encoded@'''

def apply(F):
    # ghost imports + shim module must precede `mod util` (macro shadowing is textual-order dependent)
    F.replace_exact('#[macro_use]\nmod util;', 'use vstd::prelude::*;\n#[macro_use]\nmod verif_shim;\nmod verif_lemmas;\n#[macro_use]\nmod util;')
    F.wrap([], r'pub enum HpkeError\b')
    F.insert_in([], r'pub trait Serializable\b', '''
    /// ghost: the serialized form (RFC 9180 Serialize*), as a byte sequence
    spec fn ser(&self) -> crate::verif_shim::Bytes;
''')
    F.contract([r'pub trait Serializable\b'], r'fn write_exact\b', clauses='''
        requires /*@C12 C13*/ old(buf)@.len() == crate::verif_shim::tnum::<Self::OutputSize>(),
        ensures /*@C12*/ final(buf)@ == self.ser(),
                self.ser().len() == crate::verif_shim::tnum::<Self::OutputSize>()
''')
    F.contract([r'pub trait Serializable\b'], r'fn to_bytes\b', ret='r', clauses='''
        ensures /*@C12*/ crate::verif_shim::GaView::gv(&r) == self.ser(),
                self.ser().len() == crate::verif_shim::tnum::<Self::OutputSize>(),
''')
    F.contract([r'pub trait Serializable\b'], r'fn size\b', ret='r', attrs=['#[verifier::external_body]'], discharged_by='kani:kem_ids_table, kani:aead_ids_and_sizes_table (size() of every key and tag type against the RFC 9180 numbers)', clauses='''
        ensures /*@C12*/ r == crate::verif_shim::tnum::<Self::OutputSize>(),
''')
    F.insert_in([], r'pub trait Deserializable\b', '''
    /// ghost: which byte strings of the right length are accepted (RFC 9180 Deserialize* validation)
    spec fn de_valid(b: crate::verif_shim::Bytes) -> bool;
''')
    F.contract([r'pub trait Deserializable\b'], r'fn from_bytes\b', ret='r', clauses=from_bytes_clauses() + '\n')
    F.wrap([], r'pub trait Serializable\b', upto_rx=r'pub trait Deserializable\b')
