"""Contracts for src/op_mode.rs (RFC 9180 §5 Table 1, §5.1 VerifyPSKInputs / default psk)."""

TRAIT_SPEC = '''
    open spec fn m_mode(&self) -> u8 { self.mode_byte() }
    open spec fn m_psk(&self) -> Bytes { self.psk_bytes() }
    open spec fn m_psk_id(&self) -> Bytes { self.psk_id_bytes() }
'''
MODE_SPEC = '''
    /// ghost: RFC 9180 §5 Table 1 and the §5.1 defaults
    pub open spec fn mode_byte(&self) -> u8 {
        match self { %(T)s::Base => MODE_BASE(), %(T)s::Psk(..) => MODE_PSK(), %(T)s::Auth(..) => MODE_AUTH(), %(T)s::AuthPsk(..) => MODE_AUTH_PSK() }
    }
    pub open spec fn psk_bytes(&self) -> Bytes {
        match self { %(T)s::Psk(b) => b.v_psk(), %(T)s::AuthPsk(_, b) => b.v_psk(), _ => Bytes::empty() }
    }
    pub open spec fn psk_id_bytes(&self) -> Bytes {
        match self { %(T)s::Psk(b) => b.v_psk_id(), %(T)s::AuthPsk(_, b) => b.v_psk_id(), _ => Bytes::empty() }
    }
'''

def apply(F):
    F.use()
    F.contract([r"impl<'a> PskBundle<'a>"], r'pub fn new\b', ret='r', clauses='''
        ensures
            /*@C15 C13*/ r is Ok <==> ((psk@.len() == 0) == (psk_id@.len() == 0)),
            /*@C15*/ r is Err ==> r == Err::<Self, HpkeError>(HpkeError::InvalidPskBundle),
            /*@C15 C02*/ r is Ok ==> r.unwrap().v_psk() == psk@ && r.unwrap().v_psk_id() == psk_id@,
''')
    F.insert_in([], r"impl<'a> PskBundle<'a>", '''
    /// ghost views of the private fields
    pub closed spec fn v_psk(&self) -> Bytes { self.psk@ }
    pub closed spec fn v_psk_id(&self) -> Bytes { self.psk_id@ }
''')
    F.wrap([], r"pub struct PskBundle<'a>")
    F.wrap([], r"impl<'a> PskBundle<'a>")

    F.wrap([], r"pub enum OpModeR<'a, Kem: KemTrait>")
    F.contract([r"impl<(?:'\w+,\s*)?Kem: KemTrait> OpModeR<'\w+, Kem>"], r'fn get_pk_sender_id\b', ret='r', clauses='''
        ensures /*@C08 C02 C01*/ r == self.sender_pk(),
''')
    F.insert_in([], r"impl<(?:'\w+,\s*)?Kem: KemTrait> OpModeR<'\w+, Kem>", '''
    /// ghost: RFC 9180 §5.1.3/§5.1.4: pkS is an input exactly in the Auth and AuthPsk modes
    pub open spec fn sender_pk(&self) -> Option<&Kem::PublicKey> {
        match self { OpModeR::Auth(pk) => Some(pk), OpModeR::AuthPsk(pk, _) => Some(pk), _ => None }
    }
''')
    F.wrap([], r"pub enum OpModeS<'a, Kem: KemTrait>")
    F.contract([r"impl<(?:'\w+,\s*)?Kem: KemTrait> OpModeS<'\w+, Kem>"], r'fn get_sender_id_keypair\b', ret='r', clauses='''
        ensures /*@C08 C02 C01*/ r == self.sender_keypair(),
''')
    F.insert_in([], r"impl<(?:'\w+,\s*)?Kem: KemTrait> OpModeS<'\w+, Kem>", '''
    /// ghost: RFC 9180 §5.1.3/§5.1.4: skS is an input exactly in the Auth and AuthPsk modes
    pub open spec fn sender_keypair(&self) -> Option<(&Kem::PrivateKey, &Kem::PublicKey)> {
        match self { OpModeS::Auth(kp) => Some((&kp.0, &kp.1)), OpModeS::AuthPsk(kp, _) => Some((&kp.0, &kp.1)), _ => None }
    }
''')

    T = [r'pub\(crate\) trait OpMode<Kem: KemTrait>']
    CL = {'mode_id': '        ensures /*@C02 C07 C08 C15 C01*/ r == self.m_mode()',
          'get_psk_bytes': '        ensures /*@C02 C15 C07 C08 C01*/ r@ == self.m_psk()',
          'get_psk_id': '        ensures /*@C02 C15 C07 C01*/ r@ == self.m_psk_id()'}
    for fn in CL:
        F.contract(T, r'fn %s\b' % fn, ret='r', clauses=CL[fn])
    F.insert_in([], T[0], '''
    spec fn m_mode(&self) -> u8;
    spec fn m_psk(&self) -> Bytes;
    spec fn m_psk_id(&self) -> Bytes;
''')
    F.wrap([], T[0])
    for t in ('OpModeR', 'OpModeS'):
        I = [r"impl<Kem: KemTrait> OpMode<Kem> for %s<'_, Kem>" % t]
        for fn in ('mode_id', 'get_psk_bytes', 'get_psk_id'):
            F.contract(I, r'fn %s\b' % fn, ret='r', clauses=CL[fn] + ',\n')
        F.insert_in([], I[0], TRAIT_SPEC)
        F.insert_in([], r"impl<(?:'\w+,\s*)?Kem: KemTrait> %s<'\w+, Kem>" % t, MODE_SPEC % {'T': t})
        F.wrap([], I[0])
    F.wrap([], r"impl<(?:'\w+,\s*)?Kem: KemTrait> OpModeR<'\w+, Kem>")
    F.wrap([], r"impl<(?:'\w+,\s*)?Kem: KemTrait> OpModeS<'\w+, Kem>")
