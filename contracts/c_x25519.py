"""Contracts for src/dhkex/x25519.rs."""
from contracts.c_lib import from_bytes_clauses
from contracts.c_dhkex import SK_TO_PK, DERIVE, DH

def apply(F):
    F.use()
    F.wrap([], r'pub struct PublicKey\b')
    F.wrap([], r'pub struct PrivateKey\b')
    F.wrap([], r'pub struct KexResult\b')
    for t, f in (('PublicKey', 'x_pk_bytes'), ('PrivateKey', 'x_sk_bytes'), ('KexResult', 'x_ss_bytes')):
        S = [r'impl Serializable for %s\b' % t]
        F.insert_in([], S[0], '    closed spec fn ser(&self) -> Bytes { %s(&self.0) }' % f)
        nm = 'write_exact_%s_body' % t.lower()
        F.hoist(S, r'fn write_exact\b', nm, t, trait='Serializable')
        F.contract(S, r'fn write_exact\b', attrs=['#[verifier::external_body]'], discharged_by='N7 delegation to the verified %s (cross-checked by kani:write_exact_x25519_copies)' % nm)
        F.contract([], r'fn %s\b' % nm, clauses='''
    requires old(buf)@.len() == 32,
    ensures /*@C12*/ final(buf)@ == this.ser(),
''')
        F.wrap([], r'fn %s\b' % nm)
        F.wrap([], S[0])
    for t in ('PublicKey', 'PrivateKey'):
        D = [r'impl Deserializable for %s\b' % t]
        F.insert_in([], D[0], '    // ghost: every 32-byte string is accepted (RFC 9180 §7.1.1: no validation for X25519)\n    open spec fn de_valid(b: Bytes) -> bool { true }')
        F.contract(D, r'fn from_bytes\b', ret='r', clauses=from_bytes_clauses('tnum::<Self::OutputSize>()') + ',\n')
        F.wrap([], D[0])
    F.wrap([], r'pub struct X25519\b')
    X = [r'impl DhKeyExchange for X25519\b']
    F.insert_in([], X[0], '''
    // ghost: RFC 7748 / RFC 9180 §7.1 for X25519
    open spec fn s_pk_of(sk: Bytes) -> Bytes { x_base(sk) }
    // RFC 9180 §7.1.4: "MUST check whether the shared secret is the all-zero value and abort if so"
    open spec fn s_dh(sk: Bytes, pk: Bytes) -> Option<Bytes> {
        if x_mul(sk, pk) =~= zeros(32) { None } else { Some(x_mul(sk, pk)) }
    }
    // RFC 9180 §7.1.3 DeriveKeyPair for X25519: sk = LabeledExpand(dkp_prk, "sk", "", Nsk)
    open spec fn s_derive(nh: nat, suite_id: Bytes, ikm: Bytes) -> (Bytes, Bytes) {
        let sk = dkp_x_sk_spec(nh, suite_id, ikm, 32);
        (sk, x_base(sk))
    }
''')
    F.contract(X, r'fn sk_to_pk\b', ret='r', clauses=SK_TO_PK + ',\n')
    F.contract(X, r'fn dh\b', ret='r', attrs=['#[verifier::external_body]'], discharged_by='kani:x25519_dh_zero_check', clauses=DH + ',\n')
    F.contract(X, r'fn derive_keypair<Kdf: KdfTrait>', ret='r', clauses=DERIVE + ',\n')
    F.wrap([], X[0])
    F.append('verus!{ broadcast use {tnum_values, x_lens, x_ss_len, x_fn_lens, x_base_len, ga_len}; }')
