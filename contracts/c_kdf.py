"""Contracts for src/kdf.rs (RFC 9180 §4 LabeledExtract / LabeledExpand / ExtractAndExpand)."""

NH = 'nh_of::<Kdf::HashImpl>()'

def apply(F):
    F.use()
    F.const_bytes([], 'VERSION_LABEL')
    F.wrap([], r'pub\(crate\) const MAX_DIGEST_SIZE')
    # trait + the three KDF types and their impls (identifier constants: see c_ids / Kani `ids_*`)
    F.wrap([], r'pub trait Kdf\b')
    for k in ('HkdfSha256', 'HkdfSha384', 'HkdfSha512'):
        F.wrap([], r'pub struct %s\b' % k)
        F.wrap([], r'impl KdfTrait for %s\b' % k)

    F.contract([], r'pub fn extract_and_expand\b', ret='r', clauses=f'''
    ensures
        final(out)@.len() == old(out)@.len(),
        /*@C02 C03 C13*/ r is Ok <==> old(out)@.len() <= 255 * {NH} && old(out)@.len() <= 0xffff,
        /*@C02 C03 ~C01*/ r is Ok ==> final(out)@ == extract_and_expand_spec({NH}, ikm@, suite_id@, info@, old(out)@.len()),
        /*@ext*/ r is Ok ==> forall|k2: Bytes, s2: Bytes, i2: Bytes| #![trigger extract_and_expand_spec({NH}, k2, s2, i2, old(out)@.len())] k2 =~= ikm@ && s2 =~= suite_id@ && i2 =~= info@ ==> final(out)@ == extract_and_expand_spec({NH}, k2, s2, i2, old(out)@.len()),
''')
    F.wrap([], r'pub fn extract_and_expand\b')

    F.contract([], r'pub fn labeled_extract\b', ret='r', clauses=f'''
    ensures
        /*@C02 C03 ~C07 ~C01*/ r.0.gv() == labeled_extract_spec({NH}, salt@, suite_id@, label@, ikm@),
        /*@C02 C03*/ r.1.prk() == r.0.gv(),
        r.0.gv().len() == {NH},
        /*@ext*/ forall|sa: Bytes, s2: Bytes, l2: Bytes, i2: Bytes| #![trigger labeled_extract_spec({NH}, sa, s2, l2, i2)] sa =~= salt@ && s2 =~= suite_id@ && l2 =~= label@ && i2 =~= ikm@ ==> r.0.gv() == labeled_extract_spec({NH}, sa, s2, l2, i2),
''')
    F.wrap([], r'pub fn labeled_extract\b')

    LX = '''
        ensures
            final(out)@.len() == old(out)@.len(),
            /*@C02 C11 C13*/ r is Ok <==> old(out)@.len() <= 255 * self.lx_nh() && old(out)@.len() <= 0xffff,
            /*@C02 C11 C03 ~C01*/ r is Ok ==> final(out)@ == labeled_expand_spec(self.lx_nh(), self.lx_prk(), suite_id@, label@, info@, old(out)@.len()),
            /*@ext*/ r is Ok ==> forall|s2: Bytes, l2: Bytes, i2: Bytes| #![trigger labeled_expand_spec(self.lx_nh(), self.lx_prk(), s2, l2, i2, old(out)@.len())] s2 =~= suite_id@ && l2 =~= label@ && i2 =~= info@ ==> final(out)@ == labeled_expand_spec(self.lx_nh(), self.lx_prk(), s2, l2, i2, old(out)@.len())
'''
    F.contract([r'pub trait LabeledExpand\b'], r'fn labeled_expand\b', ret='r', clauses=LX)
    F.insert_in([], r'pub trait LabeledExpand\b', '''
    spec fn lx_nh(&self) -> nat;
    spec fn lx_prk(&self) -> Bytes;
''')
    F.insert_in([], r'impl<D> LabeledExpand for hkdf::Hkdf<D, SimpleHmac<D>>', '''
    open spec fn lx_nh(&self) -> nat { nh_of::<D>() }
    open spec fn lx_prk(&self) -> Bytes { self.prk() }
''')
    # the trait-level clauses are restated on the impl: Verus orders an impl method after the impl's own
    # spec fns only if it mentions them statically (otherwise the definitions may be emitted too late)
    F.contract([r'impl<D> LabeledExpand for hkdf::Hkdf<D, SimpleHmac<D>>'], r'fn labeled_expand\b', ret='r', clauses=LX.rstrip() + ',\n')
    F.wrap([], r'pub trait LabeledExpand\b', upto_rx=r'impl<D> LabeledExpand for hkdf::Hkdf<D, SimpleHmac<D>>')
