"""Contracts for src/dhkex/ecdh_nistp.rs (macro nistp_dhkex!: P-256, P-384, P-521)."""
from contracts.c_lib import from_bytes_clauses
from contracts.c_dhkex import SK_TO_PK, DERIVE, DH

M = [r'macro_rules! nistp_dhkex\b', r'pub\(crate\) mod \$curve\b']
C = 'curve_crate::Nist$CURVE'

def apply(F):
    F.use(M)
    F.wrap(M, r'pub struct PublicKey\b')
    F.wrap(M, r'pub struct PrivateKey\b')
    F.wrap(M, r'pub struct KexResult\b')
    for t, f in (('PublicKey', 'ec_pk_bytes'), ('PrivateKey', 'ec_sk_bytes'), ('KexResult', 'ec_ss_bytes')):
        S = M + [r'impl Serializable for %s\b' % t]
        F.insert_in(M, S[-1], '    closed spec fn ser(&self) -> Bytes { %s(&self.0) }' % f)
        F.contract(S, r'fn write_exact\b', attrs=['#[verifier::external_body]'], discharged_by='TRUSTED (dependency encoder: SEC1 point / scalar / x-coordinate bytes; private keys cross-checked by kani:nist_sk_from_bytes_p256, _p384; all three types pinned on the SEC 2 generator by the bounded native run kat/nist_kat.rs in C12)')
        F.wrap(M, S[-1])
    D = M + [r'impl Deserializable for PublicKey\b']
    F.insert_in(M, D[-1], '                // ghost: RFC 9180 §7.1.4 validation of public keys\n                open spec fn de_valid(b: Bytes) -> bool { sec1_valid::<CurveTy>(b) }')
    F.contract(D, r'fn from_bytes\b', ret='r', clauses=from_bytes_clauses('tnum::<Self::OutputSize>()') + ',\n')
    F.wrap(M, D[-1])
    D = M + [r'impl Deserializable for PrivateKey\b']
    # SecretKey::from_bytes takes &FieldBytes<C> (a projection of elliptic_curve::Curve, which cannot be
    # declared to Verus): contract assumed here, glue + range check discharged by Kani per curve
    F.contract(D, r'fn from_bytes\b', ret='r', attrs=['#[verifier::external_body]'], discharged_by='kani:nist_sk_from_bytes_*', clauses=from_bytes_clauses('tnum::<Self::OutputSize>()') + ',\n')
    F.insert_in(M, D[-1], '                // ghost: RFC 9180 §7.1.2: private keys are scalars in [1, n-1]\n                open spec fn de_valid(b: Bytes) -> bool { scalar_ok::<CurveTy>(b) }')
    F.wrap(M, D[-1])
    X = M + [r'impl DhKeyExchange for \$dh_name\b']
    F.insert_in(M, X[-1], '''
                // ghost: RFC 9180 §7.1 for the NIST curves
                open spec fn s_pk_of(sk: Bytes) -> Bytes { ec_base::<CurveTy>(sk) }
                // the result is never the point at infinity for validated keys (RFC 9180 §7.1.4), so DH never aborts
                open spec fn s_dh(sk: Bytes, pk: Bytes) -> Option<Bytes> { Some(ec_dh::<CurveTy>(sk, pk)) }
                open spec fn s_derive(nh: nat, suite_id: Bytes, ikm: Bytes) -> (Bytes, Bytes) {
                    let nsk = tnum::<$privkey_size>();
                    let c = choose|c: nat| nist_dkp_is_first::<CurveTy>(nh, suite_id, ikm, nsk, $keygen_bitmask, c);
                    let sk = dkp_candidate_spec(nh, suite_id, ikm, c, nsk, $keygen_bitmask);
                    (sk, ec_base::<CurveTy>(sk))
                }
''')
    F.contract(X, r'fn sk_to_pk\b', ret='r', clauses=SK_TO_PK + ',\n')
    F.contract(X, r'fn dh\b', ret='r', attrs=['#[verifier::external_body]'], discharged_by='TRUSTED (one-line delegation to elliptic_curve::ecdh::diffie_hellman; its impl-Borrow signature is outside Verus)', clauses=DH + ',\n')
    # loop_isolation(false): facts about variables the loop does not modify (the PRK context, the parameters) stay
    # available inside the loop, so the invariant names no local except the loop counter (robust against renames)
    F.contract(X, r'fn derive_keypair<Kdf: KdfTrait>', ret='r', attrs=['#[verifier::loop_isolation(false)]'], clauses=DERIVE + ',\n')
    # N5: the only loop under contract (ghost invariant between the loop header and its body)
    F.loop_invariant(X, r'fn derive_keypair<Kdf: KdfTrait>', r'for counter in\b', '''
                        invariant
                            forall|d: nat| d < counter ==> !(#[trigger] nist_cand_ok::<CurveTy>(nh_of::<Kdf::HashImpl>(), suite_id@, ikm@, d, tnum::<$privkey_size>(), $keygen_bitmask)),
                            // trigger seeding only (both clauses are `true`): make the solver consider the current counter
                            trig(nist_cand_ok::<CurveTy>(nh_of::<Kdf::HashImpl>(), suite_id@, ikm@, counter as nat, tnum::<$privkey_size>(), $keygen_bitmask)),
                            trig(nist_dkp_is_first::<CurveTy>(nh_of::<Kdf::HashImpl>(), suite_id@, ikm@, tnum::<$privkey_size>(), $keygen_bitmask, counter as nat)),
''')
    F.wrap(M, r'pub struct \$dh_name\b')
    F.wrap(M, X[-1])
    F.append('''
            verus!{
            // ghost: the curve type of this instance, recovered from the SecretKey alias
            pub(crate) type CurveTy = <curve_crate::SecretKey as CurveOf>::C;
            broadcast use {tnum_values, ga_len, ec_flens};
            }
''', scopes=M)
