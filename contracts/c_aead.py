"""Contracts for src/aead.rs."""

def apply(F):
    F.use()
    F.wrap([], r'pub trait Aead\b')
