"""Contracts for src/aead.rs (RFC 9180 §5.2 ContextS.Seal / ContextR.Open / ComputeNonce /
IncrementSeq, §5.3 Export)."""

G3 = 'impl<A: Aead, Kdf: KdfTrait, Kem: KemTrait>'
from contracts.c_lib import from_bytes_clauses
IMPL = 'A::AeadImpl'
NH = 'nh_of::<Kdf::HashImpl>()'

VIEWS = '''
verus!{
broadcast use ga_len;
impl<A: Aead> AeadTag<A> {
    /// ghost: the tag bytes
    pub closed spec fn v_tag(&self) -> Bytes { self.0.gv() }
    pub broadcast proof fn v_tag_len(&self)
        ensures #[trigger] self.v_tag().len() == nt_of::<A::AeadImpl>()
    { broadcast use ga_len; }
    pub broadcast proof fn v_tag_is_ser(&self)
        ensures #[trigger] self.v_tag() == self.ser()
    { }
}
impl<A: Aead, Kdf: KdfTrait, Kem: KemTrait> AeadCtx<A, Kdf, Kem> {
    /// ghost: abstract state of the context (RFC 9180 §5.2 Context<ROLE>)
    pub closed spec fn view(&self) -> CtxView {
        CtxView {
            overflowed: self.overflowed,
            seq: self.seq.0 as nat,
            key: aead_key_of::<A::AeadImpl>(&self.encryptor),
            base_nonce: self.base_nonce.0.gv(),
            exporter_secret: self.exporter_secret.0.gv(),
            suite_id: self.suite_id@,
        }
    }
}
impl<A: Aead, Kdf: KdfTrait, Kem: KemTrait> AeadCtxR<A, Kdf, Kem> {
    pub closed spec fn view(&self) -> CtxView { self.0.view() }
    pub broadcast proof fn from_spec_view(c: AeadCtx<A, Kdf, Kem>)
        ensures (#[trigger] <Self as vstd::std_specs::convert::FromSpec<AeadCtx<A, Kdf, Kem>>>::from_spec(c)).view() == c.view() {}
}
impl<A: Aead, Kdf: KdfTrait, Kem: KemTrait> AeadCtxS<A, Kdf, Kem> {
    pub closed spec fn view(&self) -> CtxView { self.0.view() }
    pub broadcast proof fn from_spec_view(c: AeadCtx<A, Kdf, Kem>)
        ensures (#[trigger] <Self as vstd::std_specs::convert::FromSpec<AeadCtx<A, Kdf, Kem>>>::from_spec(c)).view() == c.view() {}
}
// ghost: the `From` wrappers are total functions (needed so that `.into()` is specified)
impl<A: Aead, Kdf: KdfTrait, Kem: KemTrait> vstd::std_specs::convert::FromSpecImpl<AeadCtx<A, Kdf, Kem>> for AeadCtxR<A, Kdf, Kem> {
    open spec fn obeys_from_spec() -> bool { true }
    closed spec fn from_spec(v: AeadCtx<A, Kdf, Kem>) -> Self { AeadCtxR(v) }
}
impl<A: Aead, Kdf: KdfTrait, Kem: KemTrait> vstd::std_specs::convert::FromSpecImpl<AeadCtx<A, Kdf, Kem>> for AeadCtxS<A, Kdf, Kem> {
    open spec fn obeys_from_spec() -> bool { true }
    closed spec fn from_spec(v: AeadCtx<A, Kdf, Kem>) -> Self { AeadCtxS(v) }
}
// ghost: value of the derived `Default` for the sequence counter (discharged by Kani `seq_default_is_zero`)
impl Seq { pub closed spec fn sv(&self) -> u64 { self.0 } }
pub assume_specification [<Seq as Default>::default] () -> (r: Seq)
    ensures r.sv() == 0;
}
'''

def seal_open_common(v):
    return f'''compute_nonce_spec({v}.base_nonce, {v}.seq)'''

def apply(F):
    F.use()
    F.wrap([], r'pub trait Aead\b')
    F.wrap([], r'pub\(crate\) struct AeadNonce<A: Aead>')
    F.wrap([], r'impl<A: Aead> Default for AeadNonce<A>')
    F.wrap([], r'pub\(crate\) struct AeadKey<A: Aead>')
    F.wrap([], r'impl<A: Aead> Default for AeadKey<A>')
    F.wrap([], r'struct Seq\(u64\)')

    # §5.2 IncrementSeq / ComputeNonce: assumed here, discharged by Kani over the full input domain
    F.contract([], r'fn increment_seq\b', ret='r', attrs=['#[verifier::external_body]'], discharged_by='kani:increment_seq_full', clauses='''
    ensures /*@C04 C05*/ r == (if seq.0 == 0xffff_ffff_ffff_ffffu64 { None::<Seq> } else { Some(Seq((seq.0 + 1) as u64)) }),
''')
    F.contract([], r'fn mix_nonce<A: Aead>', ret='r', attrs=['#[verifier::external_body]'], discharged_by='kani:mix_nonce_full', clauses='''
    requires /*@C13*/ 8 <= nn_of::<A::AeadImpl>(),
    ensures /*@C04 C02 C05*/ r.0.gv() == compute_nonce_spec(base_nonce.0.gv(), seq.0 as nat),
''')
    F.wrap([], r'fn increment_seq\b', upto_rx=r'fn mix_nonce<A: Aead>')

    F.wrap([], r'pub struct AeadTag<A: Aead>')
    F.wrap([], r'impl<A: Aead> Default for AeadTag<A>')
    S = [r'impl<A: Aead> Serializable for AeadTag<A>']
    F.insert_in([], S[0], '    closed spec fn ser(&self) -> Bytes { self.0.gv() }')
    # N7: write_exact calls enforce_outbuf_len::<Self> inside `impl Serializable for Self` (trait-cycle check)
    F.hoist(S, r'fn write_exact\b', 'write_exact_tag_body', 'AeadTag<A>', trait='Serializable', generics='A: Aead')
    F.contract(S, r'fn write_exact\b', attrs=['#[verifier::external_body]'], discharged_by='N7 delegation to the verified write_exact_tag_body (cross-checked by kani:write_exact_tag_copies)')
    F.contract([], r'fn write_exact_tag_body<A: Aead>', clauses='''
    requires old(buf)@.len() == nt_of::<A::AeadImpl>(),
    ensures /*@C12*/ final(buf)@ == this.ser(),
''')
    F.wrap([], r'fn write_exact_tag_body<A: Aead>')
    F.wrap([], S[0])
    D = [r'impl<A: Aead> Deserializable for AeadTag<A>']
    F.insert_in([], D[0], '    open spec fn de_valid(b: Bytes) -> bool { true }')
    F.contract(D, r'fn from_bytes\b', ret='r', clauses=from_bytes_clauses('tnum::<Self::OutputSize>()') + ',\n')
    F.wrap([], D[0])

    F.wrap([], r'pub\(crate\) struct AeadCtx<A: Aead, Kdf: KdfTrait, Kem: KemTrait>')
    C = [G3 + r' AeadCtx<A, Kdf, Kem>']
    F.contract(C, r'pub\(crate\) fn new\b', ret='r', clauses='''
        ensures /*@C02 C04 C11 ~C01 ~C07*/ r.view() == (CtxView {
            overflowed: false, seq: 0, key: key.0.gv(), base_nonce: base_nonce.0.gv(),
            exporter_secret: exporter_secret.0.gv(),
            suite_id: full_suite_id_spec(Kem::KEM_ID, Kdf::KDF_ID, A::AEAD_ID) }),
''')
    EXPORT = f'''
        requires kdf_ok::<Kdf>(),
        ensures
            final({{o}})@.len() == old({{o}})@.len(),
            /*@C11 C13*/ r is Ok <==> old({{o}})@.len() <= 255 * {NH},
            /*@C11*/ r is Err ==> r == Err::<(), HpkeError>(HpkeError::KdfOutputTooLong),
            /*@C11 C02*/ r is Ok ==> final({{o}})@ == export_spec({NH}, self.view().exporter_secret, self.view().suite_id, {{c}}@, old({{o}})@.len()),
'''
    F.contract(C, r'pub fn export\b', ret='r', clauses=EXPORT.format(o='out_buf', c='exporter_ctx'))
    F.wrap([], C[0])

    # ---------------- receiver
    F.wrap([], r'pub struct AeadCtxR<A: Aead, Kdf: KdfTrait, Kem: KemTrait>')
    FR = [G3 + r' From<AeadCtx<A, Kdf, Kem>> for AeadCtxR<A, Kdf, Kem>']
    F.contract(FR, r'fn from\b', ret='r', clauses='        ensures /*@C01 C02*/ r.view() == ctx.view(),')
    F.wrap([], FR[0])
    R = [G3 + r' AeadCtxR<A, Kdf, Kem>']
    F.contract(R, r'pub fn open_in_place_detached\b', ret='r', clauses=f'''
        requires aead_ok::<A>(),
        ensures
            final(ciphertext)@.len() == old(ciphertext)@.len(),
            /*@C05 C04*/ old(self).view().overflowed ==>
                r == Err::<(), HpkeError>(HpkeError::MessageLimitReached)
                && final(ciphertext)@ == old(ciphertext)@ && final(self).view() == old(self).view(),
            /*@C05 C06 C01 C02*/ !old(self).view().overflowed ==> ({{
                let v = old(self).view();
                let o = aead_open_spec::<{IMPL}>(v.key, compute_nonce_spec(v.base_nonce, v.seq), aad@, old(ciphertext)@, tag.v_tag());
                &&& o is None ==> r == Err::<(), HpkeError>(HpkeError::OpenError) && final(self).view() == v
                &&& o is Some ==> r is Ok && final(ciphertext)@ == o.unwrap() && final(self).view() == ctx_advance(v)
            }}),
            /*@C05 C06 C01 lemma-link*/ ({{
                let s = ctx_open_spec::<{IMPL}>(old(self).view(), aad@, old(ciphertext)@, tag.v_tag());
                &&& final(self).view() == s.0
                &&& (s.1 matches Err(e) ==> r == Err::<(), HpkeError>(e))
                &&& (s.1 matches Ok(p) ==> r is Ok && final(ciphertext)@ == p)
            }}),
''')
    F.contract(R, r'pub fn open\b', ret='r', clauses=f'''
        requires aead_ok::<A>(),
        ensures
            /*@C05*/ old(self).view().overflowed ==>
                r == Err::<crate::Vec<u8>, HpkeError>(HpkeError::MessageLimitReached) && final(self).view() == old(self).view(),
            /*@C05 C06 C13 C14*/ !old(self).view().overflowed && ciphertext@.len() < nt_of::<{IMPL}>() ==>
                r == Err::<crate::Vec<u8>, HpkeError>(HpkeError::OpenError) && final(self).view() == old(self).view(),
            /*@C05 C06 C14 C01 C02*/ !old(self).view().overflowed && ciphertext@.len() >= nt_of::<{IMPL}>() ==> ({{
                let v = old(self).view();
                let n = ciphertext@.len() - nt_of::<{IMPL}>();
                let o = aead_open_spec::<{IMPL}>(v.key, compute_nonce_spec(v.base_nonce, v.seq), aad@,
                                                 ciphertext@.subrange(0, n), ciphertext@.subrange(n, ciphertext@.len() as int));
                &&& o is None ==> r == Err::<crate::Vec<u8>, HpkeError>(HpkeError::OpenError) && final(self).view() == v
                &&& o is Some ==> r is Ok && r.unwrap()@ == o.unwrap() && final(self).view() == ctx_advance(v)
            }}),
            /*@C05 C06 C14 C01 lemma-link*/ ({{
                let s = ctx_open_alloc_spec::<{IMPL}>(old(self).view(), aad@, ciphertext@, nt_of::<{IMPL}>());
                &&& final(self).view() == s.0
                &&& (s.1 matches Err(e) ==> r == Err::<crate::Vec<u8>, HpkeError>(e))
                &&& (s.1 matches Ok(p) ==> r is Ok && r.unwrap()@ == p)
            }}),
''')
    F.contract(R, r'pub fn export\b', ret='r', clauses=EXPORT.format(o='out_buf', c='info'))
    F.wrap([], R[0])

    # ---------------- sender
    F.wrap([], r'pub struct AeadCtxS<A: Aead, Kdf: KdfTrait, Kem: KemTrait>')
    FS = [G3 + r' From<AeadCtx<A, Kdf, Kem>> for AeadCtxS<A, Kdf, Kem>']
    F.contract(FS, r'fn from\b', ret='r', clauses='        ensures /*@C01 C02*/ r.view() == ctx.view(),')
    F.wrap([], FS[0])
    S = [G3 + r' AeadCtxS<A, Kdf, Kem>']
    F.contract(S, r'pub fn seal_in_place_detached\b', ret='r', clauses=f'''
        requires aead_ok::<A>(),
        ensures
            final(plaintext)@.len() == old(plaintext)@.len(),
            /*@C04*/ old(self).view().overflowed ==>
                r == Err::<AeadTag<A>, HpkeError>(HpkeError::MessageLimitReached)
                && final(plaintext)@ == old(plaintext)@ && final(self).view() == old(self).view(),
            /*@C04 C01 C02 C13*/ !old(self).view().overflowed ==> ({{
                let v = old(self).view();
                let s = aead_seal_spec::<{IMPL}>(v.key, compute_nonce_spec(v.base_nonce, v.seq), aad@, old(plaintext)@);
                &&& s is None ==> r == Err::<AeadTag<A>, HpkeError>(HpkeError::SealError) && final(self).view() == v
                &&& s is Some ==> r is Ok && final(plaintext)@ == s.unwrap().0 && r.unwrap().v_tag() == s.unwrap().1
                                  && final(self).view() == ctx_advance(v)
            }}),
            /*@C04 C01 lemma-link*/ ({{
                let s = ctx_seal_spec::<{IMPL}>(old(self).view(), aad@, old(plaintext)@);
                &&& final(self).view() == s.0
                &&& (s.1 matches Err(e) ==> r == Err::<AeadTag<A>, HpkeError>(e))
                &&& (s.1 matches Ok(c) ==> r is Ok && final(plaintext)@ == c.0 && r.unwrap().v_tag() == c.1)
            }}),
''')
    # allocating seal: `buf[..n]` on a Vec is outside Verus' model -> contract assumed, bounded Kani stand-in
    F.contract(S, r'pub fn seal\b', ret='r', attrs=['#[verifier::external_body]'], discharged_by='kani-bounded:seal_alloc_bounded', clauses=f'''
        requires aead_ok::<A>(),
        ensures
            /*@C04*/ old(self).view().overflowed ==>
                r == Err::<crate::Vec<u8>, HpkeError>(HpkeError::MessageLimitReached) && final(self).view() == old(self).view(),
            /*@C14 C01 C02*/ !old(self).view().overflowed ==> ({{
                let v = old(self).view();
                let s = aead_seal_spec::<{IMPL}>(v.key, compute_nonce_spec(v.base_nonce, v.seq), aad@, plaintext@);
                &&& s is None ==> r == Err::<crate::Vec<u8>, HpkeError>(HpkeError::SealError) && final(self).view() == v
                &&& s is Some ==> r is Ok && r.unwrap()@ == s.unwrap().0 + s.unwrap().1 && final(self).view() == ctx_advance(v)
            }}),
''')
    F.contract(S, r'pub fn export\b', ret='r', clauses=EXPORT.format(o='out_buf', c='info'))
    F.wrap([], S[0])
    F.append(VIEWS)
