"""Contracts for the AEAD algorithm types (src/aead/*.rs): wrapped so that identifiers and the
associated `AeadImpl` types are visible to the verifier."""

def apply(F):
    F.use()
    if F.rel.endswith('aes_gcm.rs'):
        for n in ('AesGcm128', 'AesGcm256'):
            F.wrap([], r'pub struct %s\b' % n)
            F.wrap([], r'impl Aead for %s\b' % n)
    elif F.rel.endswith('chacha20_poly1305.rs'):
        F.wrap([], r'pub struct ChaCha20Poly1305\b')
        F.wrap([], r'impl Aead for ChaCha20Poly1305\b')
    else:
        # EmptyAeadImpl's trait impls use `_` parameters (rejected by Verus): the type is made known
        # opaquely; that its seal/open panic is decided by the Kani harnesses `export_only_*_panics`
        F.append('verus!{\n#[verifier::external_type_specification]\npub struct ExEmptyAeadImpl(EmptyAeadImpl);\n}')
        F.wrap([], r'pub struct ExportOnlyAead\b')
        F.wrap([], r'impl Aead for ExportOnlyAead\b')
