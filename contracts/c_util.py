"""Contracts for src/util.rs."""

def apply(F):
    F.use()
    F.wrap([], r'pub\(crate\) type KemSuiteId')
    F.wrap([], r'pub\(crate\) type FullSuiteId')
    # bit-level leaves: contract assumed here, discharged by Kani (full input domain, loop free)
    F.contract([], r'pub\(crate\) fn write_u16_be\b', attrs=['#[verifier::external_body]'], discharged_by='kani:write_u16_be_full', clauses='''
    requires old(buf)@.len() == 2,
    ensures final(buf)@ == i2osp(n as nat, 2),
''')
    F.contract([], r'pub\(crate\) fn write_u64_be\b', attrs=['#[verifier::external_body]'], discharged_by='kani:write_u64_be_full', clauses='''
    requires old(buf)@.len() == 8,
    ensures final(buf)@ == i2osp(n as nat, 8),
''')
    F.wrap([], r'pub\(crate\) fn write_u16_be\b', upto_rx=r'pub\(crate\) fn write_u64_be\b')

    F.contract([], r'pub\(crate\) fn full_suite_id\b', ret='r', clauses='''
    ensures /*@C02 C07 ~C01*/ r@ == full_suite_id_spec(Kem::KEM_ID, Kdf::KDF_ID, A::AEAD_ID),
''')
    F.wrap([], r'pub\(crate\) fn full_suite_id\b')
    F.contract([], r'pub\(crate\) fn kem_suite_id\b', ret='r', clauses='''
    ensures /*@C02 C03 ~C01*/ r@ == kem_suite_id_spec(Kem::KEM_ID),
''')
    F.wrap([], r'pub\(crate\) fn kem_suite_id\b')

    # N6: block-local const inlined at its two uses (same constant expression)
    F.replace_exact('        const BUFLEN: usize = count!($($slice)*) * $maxlen;\n', '', tag='N6')
    F.replace_exact('let mut buf = [0u8; BUFLEN];', 'let mut buf = [0u8; count!($($slice)*) * $maxlen];')
    F.replace_exact('let num_bytes_written = BUFLEN - unused_space.len();',
                    'let num_bytes_written = count!($($slice)*) * $maxlen - unused_space.len();')

    F.contract([], r'pub\(crate\) fn write_to_buf\b', ret='r', clauses='''
    requires to_write@.len() <= old(buf)@.len(),
    ensures r@ == old(buf)@.subrange(to_write@.len() as int, old(buf)@.len() as int),
            final(buf)@ == to_write@ + final(r)@,
''')
    F.wrap([], r'pub\(crate\) fn write_to_buf\b')
    F.contract([], r'pub\(crate\) fn enforce_equal_len\b', ret='r', clauses='''
    ensures /*@C09 C12 C13*/ given_len == expected_len ==> r is Ok,
            /*@C09 C12*/ given_len != expected_len ==> r == Err::<(), HpkeError>(HpkeError::IncorrectInputLength(expected_len, given_len)),
''')
    F.contract([], r'pub\(crate\) fn enforce_outbuf_len\b', clauses='''
    requires /*@C12 C13*/ buf@.len() == tnum::<T::OutputSize>(),
''')
    F.wrap([], r'pub\(crate\) fn enforce_equal_len\b', upto_rx=r'pub\(crate\) fn enforce_outbuf_len\b')
