// Compile-time obligations of C18, discharged by rustc's trait solver (copied to tests/verif_send_sync.rs of
// a scratch copy of /repo and type-checked with `cargo check --tests`): every public value type of every
// suite can be moved to and shared between threads.
use hpke::aead::{AeadCtxR, AeadCtxS, AeadTag, AesGcm128, AesGcm256, ChaCha20Poly1305, ExportOnlyAead};
use hpke::kdf::{HkdfSha256, HkdfSha384, HkdfSha512};
use hpke::kem::{DhP256HkdfSha256, DhP384HkdfSha384, DhP521HkdfSha512, X25519HkdfSha256};
use hpke::{HpkeError, Kem, OpModeR, OpModeS, PskBundle};
fn assert_send_sync<T: Send + Sync>() {}
macro_rules! per_suite {
    ($a:ty, $k:ty, $m:ty) => {
        assert_send_sync::<AeadCtxS<$a, $k, $m>>();
        assert_send_sync::<AeadCtxR<$a, $k, $m>>();
        assert_send_sync::<AeadTag<$a>>();
    };
}
macro_rules! per_kem {
    ($m:ty) => {
        per_suite!(AesGcm128, HkdfSha256, $m); per_suite!(AesGcm256, HkdfSha256, $m); per_suite!(ChaCha20Poly1305, HkdfSha256, $m); per_suite!(ExportOnlyAead, HkdfSha256, $m);
        per_suite!(AesGcm128, HkdfSha384, $m); per_suite!(AesGcm256, HkdfSha384, $m); per_suite!(ChaCha20Poly1305, HkdfSha384, $m); per_suite!(ExportOnlyAead, HkdfSha384, $m);
        per_suite!(AesGcm128, HkdfSha512, $m); per_suite!(AesGcm256, HkdfSha512, $m); per_suite!(ChaCha20Poly1305, HkdfSha512, $m); per_suite!(ExportOnlyAead, HkdfSha512, $m);
    };
}
#[test]
fn all_public_value_types_are_send_and_sync() {
    per_kem!(X25519HkdfSha256);
    per_kem!(DhP256HkdfSha256);
    per_kem!(DhP384HkdfSha384);
    per_kem!(DhP521HkdfSha512);
    assert_send_sync::<<X25519HkdfSha256 as Kem>::PublicKey>();
    assert_send_sync::<<X25519HkdfSha256 as Kem>::PrivateKey>();
    assert_send_sync::<<X25519HkdfSha256 as Kem>::EncappedKey>();
    assert_send_sync::<<DhP256HkdfSha256 as Kem>::PublicKey>();
    assert_send_sync::<<DhP256HkdfSha256 as Kem>::PrivateKey>();
    assert_send_sync::<<DhP256HkdfSha256 as Kem>::EncappedKey>();
    assert_send_sync::<<DhP384HkdfSha384 as Kem>::PublicKey>();
    assert_send_sync::<<DhP384HkdfSha384 as Kem>::PrivateKey>();
    assert_send_sync::<<DhP521HkdfSha512 as Kem>::PublicKey>();
    assert_send_sync::<<DhP521HkdfSha512 as Kem>::PrivateKey>();
    assert_send_sync::<OpModeR<'static, X25519HkdfSha256>>();
    assert_send_sync::<OpModeS<'static, X25519HkdfSha256>>();
    assert_send_sync::<PskBundle<'static>>();
    assert_send_sync::<HpkeError>();
}
