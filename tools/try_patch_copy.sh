#!/bin/bash
# try_patch_copy.sh <patch.diff> <label> [props...] : apply a patch to a private COPY of the repository and run checks against it
P=$1; L=$2; shift 2
PROPS=${@:-"C01 C02 C03 C04 C05 C06 C07 C08 C09 C10 C11 C12 C13 C14 C15 C16 C18"}
D=/tmp/bp_$L; rm -rf $D; mkdir -p $D; rsync -a --exclude target --exclude .git /repo/ $D/; (cd $D && git apply $P) || { echo "$L APPLY-FAILED"; exit 3; }
HERE=$(dirname $(dirname $(readlink -f $0)))
cd $HERE
res=""
for p in $PROPS; do
  out=$(VERIF_REPO=$D python3 tools/check.py $p --tier quick 2>&1); rc=$?
  if [ $rc -ne 0 ]; then res="$res $p:rc=$rc[$(echo "$out" | grep -E '^(VIOLATION|UNDECIDED)' | head -1 | cut -c1-160)]"; fi
done
echo "$L ->${res:- all-ok}"
rm -rf $D
