#!/usr/bin/env python3
"""Regenerates /verif/MANIFEST.json from tools/props.py."""
import json, os, sys
sys.path.insert(0, os.path.dirname(os.path.abspath(__file__)))
import props as P
V = P.V
ALL = [json.loads(l)['id'] for l in open(os.path.join(V, 'properties.jsonl'))]
NA = {
    'C17': 'feature-matrix builds are a property of the build configuration space (64 cargo feature subsets), not of any function; no precondition, postcondition, invariant or lemma expresses it, and deciding it means running the compiler and test suite per subset, which is a different family of technique (DESIGN.md section 7, C17)',
}
NA.update(getattr(P, 'NOT_YET', {}))
checks = []
for pid in ALL:
    if pid not in P.PROPS:
        continue
    m = P.PROPS[pid]
    checks.append({
        'property_id': pid,
        'quick_cmd': 'python3 tools/check.py %s --tier quick' % pid,
        'thorough_cmd': 'python3 tools/check.py %s --tier thorough' % pid,
        'evidence_file': '/verif/evidence/%s.json' % pid,
        'replay_cmd_template': 'python3 tools/check.py %s --replay {path}' % pid,
        'engine': 'contracts',
        'level_claimed': {'category': m['level'], 'text': m['text'], 'design_ref': 'DESIGN.md section 7 (%s)' % pid},
        'level_note': m['note'],
        'technique': m['technique'],
    })
man = {
    'version': 1,
    'setup_cmd': 'bash tools/setup.sh',
    'hooks': {
        'guard': 'none (no hook commits: contracts, ghost code and Kani harnesses are spliced into a scratch copy of /repo/src on every run)',
        'enable': 'n/a - checks copy /repo/src to a scratch directory and splice the contracts there (tools/splice.py, contracts/*.py)',
        'baseline_off_cmd': 'cd /repo && cargo test --workspace --no-fail-fast --offline',
        'source_commits': [],
        'add_only': True,
    },
    'engines': [{
        'name': 'contracts', 'path': 'tools/check.py',
        'serves_properties': [c['property_id'] for c in checks],
        'kind_free_text': 'contract-based deductive verification: Verus 0.2026.09.13 run as the compiler of the real crate with requires/ensures spliced around the real functions; Kani 0.68 / CBMC for bit-level leaves, memory-level facts, counterexamples and labelled bounded stand-ins',
    }],
    'checks': checks,
    'notes': 'Genuine defect F1 (C05) repaired by /repo commit f0115a4 ("fix: ..."); F2 (C02, C03, C08: AuthEncap/AuthDecap DH order, a seeded change of this project left in /repo and committed by the round driver) repaired by /repo commit af2a05f ("fix: ..."). Both recorded in known_findings.json as fixed; nothing is suppressed.',
    'not_applicable': [{'property_id': p, 'reason': NA[p]} for p in ALL if p not in P.PROPS],
}
for p in ALL:
    assert p in P.PROPS or p in NA, p
json.dump(man, open(os.path.join(V, 'MANIFEST.json'), 'w'), indent=1)
print('MANIFEST: %d checks, %d not_applicable' % (len(checks), len(man['not_applicable'])))
