"""RFC 9180 A.1.1 known-answer run against a scratch copy of the repository (native execution)."""
import os, shutil, subprocess, tempfile, time
V = os.path.dirname(os.path.dirname(os.path.abspath(__file__)))
REPO = os.environ.get('VERIF_REPO', '/repo')
CACHE = os.path.join(V, '.cache')


def run():
    t0 = time.time()
    sc = tempfile.mkdtemp(prefix='hpke_kat_')
    try:
        for f in ('Cargo.toml', 'Cargo.lock'):
            shutil.copy(os.path.join(REPO, f), sc)
        for d in ('src', 'benches', 'examples'):
            if os.path.exists(os.path.join(REPO, d)):
                shutil.copytree(os.path.join(REPO, d), os.path.join(sc, d))
        p = os.path.join(sc, 'src', 'setup.rs')
        open(p, 'a').write('\n' + open(os.path.join(V, 'kat', 'setup_kat.rs')).read())
        env = dict(os.environ, CARGO_NET_OFFLINE='true', CARGO_TARGET_DIR=os.path.join(CACHE, 'rustc-target'))
        r = subprocess.run(['cargo', 'test', '--offline', '--lib', 'rfc9180_a_1_1'], cwd=sc, capture_output=True, text=True, env=env, timeout=900)
        out = r.stdout + r.stderr
        ok = 'test result: ok. 1 passed' in out
        failed = 'test result: FAILED' in out
        lines = [l for l in out.splitlines() if ('panicked' in l or 'left:' in l or 'right:' in l or l.startswith('test ') or 'error' in l[:8])]
        return {'ok': ok, 'failed_natively': failed, 'compiled': ok or failed, 'output': '\n'.join(lines[:14]).replace(sc, '<scratch>'),
                'time_s': round(time.time() - t0, 1)}
    finally:
        shutil.rmtree(sc, ignore_errors=True)


if __name__ == '__main__':
    print(run())
