"""RFC 9180 A.1.1 known-answer run against a scratch copy of the repository (native execution)."""
import os, shutil, subprocess, tempfile, time
V = os.path.dirname(os.path.dirname(os.path.abspath(__file__)))
REPO = os.environ.get('VERIF_REPO', '/repo')
CACHE = os.path.join(V, '.cache')


def run(target='src/setup.rs', frag='setup_kat.rs', test_filter='rfc9180_a_1_1', n_tests=1):
    t0 = time.time()
    sc = tempfile.mkdtemp(prefix='hpke_kat_')
    try:
        for f in ('Cargo.toml', 'Cargo.lock'):
            shutil.copy(os.path.join(REPO, f), sc)
        for d in ('src', 'benches', 'examples'):
            if os.path.exists(os.path.join(REPO, d)):
                shutil.copytree(os.path.join(REPO, d), os.path.join(sc, d))
        p = os.path.join(sc, target)
        open(p, 'a').write('\n' + open(os.path.join(V, 'kat', frag)).read())
        env = dict(os.environ, CARGO_NET_OFFLINE='true', CARGO_TARGET_DIR=os.path.join(CACHE, 'rustc-target'))
        r = subprocess.run(['cargo', 'test', '--offline', '--lib', '--features', 'p384,p521', test_filter], cwd=sc, capture_output=True, text=True, env=env, timeout=900)
        out = r.stdout + r.stderr
        ok = ('test result: ok. %d passed' % n_tests) in out
        failed = 'test result: FAILED' in out
        lines = [l for l in out.splitlines() if ('panicked' in l or 'assertion' in l or 'MISMATCH' in l or 'left:' in l or 'right:' in l or l.startswith('test ') or 'error' in l[:8])]
        return {'ok': ok, 'failed_natively': failed, 'compiled': ok or failed, 'output': '\n'.join(lines[:24]).replace(sc, '<scratch>'),
                'time_s': round(time.time() - t0, 1)}
    finally:
        shutil.rmtree(sc, ignore_errors=True)


def run_nist():
    """SEC 2 base-point known answers for the three NIST curves (bounded stand-in for the trusted NIST write_exact / dh bodies)."""
    return run('src/dhkex/ecdh_nistp.rs', 'nist_kat.rs', 'verif_nist_kat_p', 3)


def run_auth():
    """independent recomputation of the RFC 9180 section 4.1 Encap/AuthEncap/Decap/AuthDecap shared secret (X25519 and P-256) from the
    crate's own DH and ExtractAndExpand; only run to look for a concrete failing input after a Verus obligation of encap_with_eph /
    decap_body has failed"""
    return run('src/kem/dhkem.rs', 'auth_kat.rs', 'verif_auth_recompute', 2)


if __name__ == '__main__':
    import sys
    print(run_nist() if 'nist' in sys.argv[1:] else (run_auth() if 'auth' in sys.argv[1:] else run()))
