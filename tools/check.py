#!/usr/bin/env python3
"""check.py <PROPERTY-ID> [--tier quick|thorough]

Decides one property of /verif/properties.jsonl for the current working tree of /repo by
contract-based deductive verification (DESIGN.md):
  * Verus run on the spliced real crate (shared by all properties, cached by content hash),
  * the property's Kani harnesses (complete full-domain proofs of the leaves Verus only assumes,
    memory-level facts, and bounded stand-ins that are labelled bounded),
exit 0: every obligation of the property discharged; exit 1 + `VIOLATION property=<id> replay=<path>`;
exit 2: undecided (lost anchor, unsupported construct, resource limit) - never an alarm."""
import argparse, json, os, re, shutil, subprocess, sys, tempfile, time, hashlib
sys.path.insert(0, os.path.dirname(os.path.abspath(__file__)))
import vrun
from vrun import V, REPO, CACHE
from rsyn import LostAnchor
from splice import Unsupported
import props as P
import kani_run

VIOLATION_MSGS = ('postcondition not satisfied', 'precondition not satisfied', 'assertion failed',
                  'possible arithmetic underflow/overflow', 'possible division by zero',
                  'invariant not satisfied', 'index out of bounds', 'unreachable',
                  'loop invariant', 'decreases not satisfied', 'possible bit shift underflow/overflow',
                  'cannot show', 'failed to', 'recommendation not met', 'precondition not met', 'index in bounds', 'not satisfied', 'not met',
                  'might not', 'may not hold')
UNDECIDED_MSGS = ('rlimit', 'resource limit', 'timed out', 'not supported', 'unsupported', 'internal error', 'ice')


def say(*a):
    print(*a, flush=True)


# --------------------------------------------------------------------------------------------- verus
def verus_shared(tier, seed):
    """run (or fetch from the content-hash cache) the shared Verus verification of the spliced crate"""
    key = vrun.tree_hash()
    rdir = os.path.join(CACHE, 'results')
    os.makedirs(rdir, exist_ok=True)
    want_canary = (tier == 'thorough')
    path = os.path.join(rdir, 'verus-%s-%s.json' % (key, 'T' if want_canary else 'Q'))
    if os.path.exists(path) and not os.environ.get('VERIF_NOCACHE'):
        try:
            r = json.load(open(path))
            r['cached'] = True
            return r
        except Exception:
            pass
    # the thorough result subsumes the quick one
    pT = os.path.join(rdir, 'verus-%s-T.json' % key)
    if not want_canary and os.path.exists(pT) and not os.environ.get('VERIF_NOCACHE'):
        r = json.load(open(pT)); r['cached'] = True
        return r
    scratch = tempfile.mkdtemp(prefix='hpke_verif_')
    res = {'key': key, 'tier': tier, 'status': 'ok', 'cached': False}
    try:
        try:
            stats = vrun.build_scratch(scratch)
        except (LostAnchor, Unsupported) as e:
            res.update(status='undecided', reason='splice: %s' % e)
            return res
        res['splice'] = {'counts': stats.n, 'external_body': stats.external_body,
                         'verified_fns': stats.verified_fns, 'index': stats.index}
        extra = []
        r = vrun.run_verus(scratch, extra)
        res['verus'] = digest_verus(r, scratch)
        res['verus_cmd'] = r['cmd'].replace(scratch, '<scratch>')
        if want_canary and res['verus']['compiled']:
            res['canary'] = canary_runs(stats)
            res['canary_lemmas'] = canary_lemmas(scratch)
            # second solver seed: disagreement is undecided, not an alarm
            r2 = vrun.run_verus(scratch, ['--smt-option', 'smt.random_seed=%d' % (1 + seed % 1000)])
            d2 = digest_verus(r2, scratch)
            res['seed2'] = {'verified': d2.get('verified'), 'errors': d2.get('errors'),
                            'agree': d2.get('errors') == res['verus'].get('errors') and d2.get('compiled') == res['verus'].get('compiled'),
                            'wall_s': d2.get('wall_s')}
        json.dump(res, open(path, 'w'))
        return res
    finally:
        shutil.rmtree(scratch, ignore_errors=True)


def span_info(sp, scratch):
    f = sp.get('file_name', '')
    rel = f.replace(scratch + '/src/', '') if scratch in f else f
    exp = None
    chain = []     # macro expansion chain: call sites from the innermost macro outwards
    e = sp.get('expansion')
    depth = 0
    while e and depth < 8:
        es = e.get('span', {})
        ef = es.get('file_name', '')
        if scratch in ef:
            exp = (ef.replace(scratch + '/src/', ''), es.get('line_start'), e.get('macro_decl_name'))
            chain.append({'file': ef.replace(scratch + '/src/', ''), 'line': es.get('line_start')})
        e = es.get('expansion')
        depth += 1
    return {'file': rel, 'line': sp.get('line_start'), 'line_end': sp.get('line_end'), 'primary': sp.get('is_primary'),
            'label': sp.get('label'), 'expansion': exp, 'chain': chain,
            'text': (sp.get('text') or [{}])[0].get('text', '').strip()[:200] if sp.get('text') else ''}


def digest_verus(r, scratch):
    out = {'rc': r['rc'], 'wall_s': round(r['wall_s'], 2), 'errors_list': [], 'compiled': True}
    j = r['json'] or {}
    vr = j.get('verification-results', {})
    out['verified'] = vr.get('verified')
    out['errors'] = vr.get('errors')
    out['success'] = vr.get('success')
    if not r['json'] or vr.get('encountered-vir-error') or vr.get('verified') is None:
        out['compiled'] = False
    fb = []
    smt_ms = 0
    try:
        for m in j['times-ms']['smt']['smt-run-module-times']:
            for f in m.get('function-breakdown', []):
                fb.append({'module': m['module'], 'function': f['function'], 'success': f['success'],
                           'ms': f.get('time', 0), 'rlimit': f.get('rlimit')})
        smt_ms = j['times-ms']['smt'].get('total', 0)
        out['total_ms'] = j['times-ms'].get('total')
    except Exception:
        pass
    out['functions'] = fb
    out['smt_ms'] = smt_ms
    for d in r['diags']:
        if d.get('level') != 'error':
            continue
        msg = d.get('message', '')
        if msg.startswith('aborting due to'):
            continue
        spans = [span_info(s, scratch) for s in d.get('spans', [])]
        # notes attached as children (e.g. failed precondition location)
        for ch in d.get('children', []):
            for s in ch.get('spans', []):
                si = span_info(s, scratch)
                si['label'] = si['label'] or ch.get('message')
                spans.append(si)
        code = (d.get('code') or {}).get('code') if d.get('code') else None
        out['errors_list'].append({'message': msg, 'code': code, 'spans': spans,
                                   'rendered': (d.get('rendered') or '').replace(scratch, '<scratch>')[:4000]})
        if code or not classify(msg):
            out['compiled'] = False if (code or 'not supported' in msg or 'unsupported' in msg.lower()) else out['compiled']
    out['raw_stderr'] = [l.replace(scratch, '<scratch>') for l in r['raw_stderr'][:30]]
    return out


def classify(msg):
    m = msg.lower()
    for u in UNDECIDED_MSGS:
        if u in m:
            return 'undecided'
    for v in VIOLATION_MSGS:
        if v in m:
            return 'violation'
    return None


def canary_one(args):
    """vacuity canary for ONE function: `false` is conjoined to that function's own ensures (callee
    contracts stay intact); the function must then fail to verify"""
    fn, = args
    sc = tempfile.mkdtemp(prefix='hpke_canary_')
    try:
        vrun.build_scratch(sc)
        p = os.path.join(sc, 'src', fn['rel'])
        lines = open(p).read().split('\n')
        done = False
        for i in range(fn['start'] - 1, fn['body']):
            m = re.search(r'\bensures\b', lines[i])
            if m:
                lines[i] = lines[i][:m.end()] + ' false,' + lines[i][m.end():]
                done = True
                break
        if not done:
            return {'fn': '%s::%s' % (fn['rel'], fn['fname']), 'status': 'no-ensures'}
        open(p, 'w').write('\n'.join(lines))
        r = vrun.run_verus(sc, [], threads=2)
        d = digest_verus(r, sc)
        hit = False
        for e in d['errors_list']:
            for sp in e['spans']:
                if sp['file'] == fn['rel'] and fn['start'] <= (sp['line'] or 0) <= fn['end']:
                    hit = True
        return {'fn': '%s::%s' % (fn['rel'], fn['fname']), 'status': 'failed-as-required' if hit else ('not-compiled' if not d['compiled'] else 'VACUOUS'),
                'errors': d['errors']}
    finally:
        shutil.rmtree(sc, ignore_errors=True)


def canary_runs(stats):
    from concurrent.futures import ThreadPoolExecutor
    todo = [fn for fn in stats.index if not fn['external'] and fn['has_body'] and fn['tags']]
    t0 = time.time()
    with ThreadPoolExecutor(max_workers=8) as ex:
        out = list(ex.map(canary_one, [(fn,) for fn in todo]))
    return {'expected_to_fail': len(todo), 'did_not_fail': [o['fn'] for o in out if o['status'] not in ('failed-as-required', 'no-ensures')],
            'detail': [o for o in out if o['status'] not in ('failed-as-required', 'no-ensures')],
            'requires_only': [o['fn'] for o in out if o['status'] == 'no-ensures'], 'compiled': True, 'wall_s': round(time.time() - t0, 1)}


def canary_lemmas(scratch):
    """vacuity canary for the property-level lemmas: `false` conjoined to ONE lemma's ensures at a time;
    that lemma must then fail (its hypotheses are satisfiable)"""
    from concurrent.futures import ThreadPoolExecutor
    src = open(os.path.join(scratch, 'src', 'verif_lemmas.rs')).read().split('\n')
    lem = []
    for i, l in enumerate(src):
        m = re.search(r'/\*@([^*]*)\*/\s*pub proof fn (\w+)', l)
        if m:
            lem.append((m.group(2), i))

    def one(t):
        name, i = t
        d = tempfile.mkdtemp(prefix='hpke_lcan_')
        try:
            shutil.copytree(os.path.join(scratch, 'src'), os.path.join(d, 'src'))
            lines = list(src)
            for j in range(i, len(lines)):
                m = re.search(r'\bensures\b', lines[j])
                if m:
                    lines[j] = lines[j][:m.end()] + ' false,' + lines[j][m.end():]
                    break
            open(os.path.join(d, 'src', 'verif_lemmas.rs'), 'w').write('\n'.join(lines))
            r = vrun.run_verus(d, ['--verify-only-module', 'verif_lemmas'], threads=2)
            j = (r['json'] or {}).get('verification-results', {})
            return name, (j.get('errors') or 0) >= 1 and not j.get('encountered-vir-error')
        finally:
            shutil.rmtree(d, ignore_errors=True)
    with ThreadPoolExecutor(max_workers=8) as ex:
        out = list(ex.map(one, lem))
    return {'lemmas': len(lem), 'vacuous': [n for n, ok in out if not ok]}


# ------------------------------------------------------------------------------- attribution
def fn_of_span(index, sp):
    for fn in index:
        if fn['rel'] == sp['file'] and fn['start'] <= (sp['line'] or 0) <= fn['end']:
            return fn
    return None


def tags_at(index, sp):
    """property tags of the contract clause that starts at (or most closely before) the span line"""
    best = None
    for fn in index:
        if fn['rel'] != sp['file']:
            continue
        for t in fn['tags']:
            if t['line'] <= (sp['line'] or 0) and (sp['line'] or 0) <= fn['body']:
                if fn['start'] <= sp['line'] <= fn['body'] and (best is None or t['line'] > best[0]):
                    best = (t['line'], t['props'], fn)
    return best


def attribute(res):
    """-> list of failures: dict(props=set, kind, fn, clause_line, message, rendered, instance)"""
    index = res['splice']['index']
    fails = []
    for e in res['verus']['errors_list']:
        kind = classify(e['message'])
        if e['code'] or kind is None:
            fails.append({'props': None, 'kind': 'compile', 'message': e['message'], 'rendered': e['rendered']})
            continue
        props = set()
        site = None
        clause = None
        instance = None
        for sp in e['spans']:
            if sp.get('expansion') and sp['expansion'][0] != sp['file']:
                instance = sp['expansion']
            elif sp.get('expansion'):
                instance = sp['expansion']
            lab = (sp['label'] or '')
            if 'failed this postcondition' in lab or 'failed precondition' in lab or 'failed this' in lab:
                t = tags_at(index, sp)
                if t:
                    props |= set(t[1]); clause = '%s:%d' % (sp['file'], t[0])
                elif sp['file'].endswith('verif_shim.rs') or sp['file'].endswith('verif_lemmas.rs'):
                    clause = '%s:%s' % (sp['file'], sp['line'])
            is_clause = ('failed this' in lab or 'failed precondition' in lab)
            fn = fn_of_span(index, sp)
            if fn is None or is_clause:
                # code expanded from a macro (e.g. concat_with_known_maxlen!): the site is the function that
                # contains the macro call, found along the expansion chain
                for c in sp.get('chain', []):
                    f2 = fn_of_span(index, {'file': c['file'], 'line': c['line']})
                    if f2 is not None and not is_clause:
                        fn = f2
                        break
            if fn and (site is None or (sp['primary'] and not is_clause)):
                if not is_clause or site is None:
                    site = fn
        if site is not None:
            # safety obligations and untagged clauses: every property the function's contract carries
            if not props or 'precondition' in e['message'] or 'overflow' in e['message'] or 'assertion' in e['message']:
                for t in site['tags']:
                    props |= set(t['props'])
                if 'postcondition' not in e['message']:
                    props.add('C13')
        lemma = None
        for sp in e['spans']:
            if sp['file'].endswith('verif_lemmas.rs'):
                lemma = sp
        why = None
        if site is not None and kind == 'violation' and (site.get('plain_loops') or site.get('calls_uncontracted')):
            # a loop without invariant havocs what it modifies, a helper without contract returns an arbitrary value:
            # an obligation that fails after either says nothing about the code -> undecided, never an alarm
            kind = 'undecided'
            why = ('%s now contains %s' % (site['fname'], ' and '.join(
                ([('%d loop(s) for which no invariant is supplied' % site['plain_loops'])] if site.get('plain_loops') else []) +
                ([('calls of crate function(s) without contract: %s' % ', '.join(site['calls_uncontracted']))] if site.get('calls_uncontracted') else []))))
        fails.append({'props': sorted(p for p in props if re.match(r'~?C\d+$', p)), 'kind': kind, 'message': e['message'],
                      'fn': ('%s::%s' % (site['rel'], site['fname'])) if site else None, 'clause': clause,
                      'instance': instance, 'lemma_span': lemma, 'rendered': e['rendered'], 'spans': e['spans'], 'why': why})
    return fails


def lemma_props():
    """lemmas tagged for properties: `/*@C01 C05*/ pub proof fn name` in spec/lemmas.rs"""
    out = {}
    p = os.path.join(V, 'spec', 'lemmas.rs')
    if not os.path.exists(p):
        return out
    lines = open(p).read().split('\n')
    for i, l in enumerate(lines):
        m = re.search(r'/\*@([^*]*)\*/\s*(?:pub\s+)?(?:broadcast\s+)?proof\s+fn\s+(\w+)', l)
        if m:
            # extent: to the next line starting with '}' at column 0
            j = i
            while j < len(lines) and not lines[j].startswith('}'):
                j += 1
            out[m.group(2)] = {'props': m.group(1).split(), 'start': i + 1, 'end': j + 1}
    return out


# --------------------------------------------------------------------------------------------- main
def main():
    ap = argparse.ArgumentParser()
    ap.add_argument('prop')
    ap.add_argument('--tier', default=os.environ.get('VERIF_TIER', 'quick'))
    ap.add_argument('--replay', default=None)
    a = ap.parse_args()
    pid = a.prop
    tier = a.tier if a.tier in ('quick', 'thorough') else 'quick'
    seed = int(os.environ.get('VERIF_SEED', '0') or 0)
    if a.replay:
        say(open(a.replay).read())
        return 0
    if pid not in P.PROPS:
        say('unknown or unclaimed property', pid)
        return 2
    meta = P.PROPS[pid]
    t0 = time.time()
    # evidence and replay files describe /repo.  A run against another tree (VERIF_REPO: seeded-change trials, benign
    # refactorings) writes them under .cache/alt-out instead, so that a trial can never leave a mutant's record
    # in /verif/evidence (that happened once: DESIGN.md section 11)
    OUT = V if os.path.realpath(REPO) == '/repo' else os.path.join(CACHE, 'alt-out', os.path.basename(os.path.normpath(REPO)))
    ev_path = os.path.join(OUT, 'evidence', '%s.json' % pid)
    if os.path.exists(ev_path):
        os.remove(ev_path)

    res = verus_shared(tier, seed)
    verus_undecided = None
    via_note = None
    obligations = []   # dict(name, backend, status, detail)
    fn_set = []
    my_fails = []
    n_verus = 0
    vz = res.get('verus', {'verified': None, 'errors': None})
    if res['status'] != 'ok':
        verus_undecided = 'splice: %s' % res.get('reason')
    else:
        index = res['splice']['index']
        fails = attribute(res)
        lem = lemma_props()
        # lemma failures -> properties of the lemma
        for f in fails:
            if f.get('lemma_span') and f['props'] is not None:
                for name, li in lem.items():
                    if li['start'] <= f['lemma_span']['line'] <= li['end']:
                        f['props'] = sorted(set(f['props']) | set(li['props']))
                        f['fn'] = 'lemma ' + name
        if [f for f in fails if f['kind'] == 'compile'] or not vz['compiled']:
            verus_undecided = 'verus could not ingest the spliced crate: ' + '; '.join([f['message'] for f in fails[:3]] + vz.get('raw_stderr', [])[:3])[:600]
        elif [f for f in fails if f['kind'] in ('violation', 'undecided') and not f['props'] and not f.get('fn')]:
            # a failed obligation in code no contract knows (e.g. inside a new helper function): nobody's property, so
            # nobody may report success either
            f0 = [f for f in fails if f['kind'] in ('violation', 'undecided') and not f['props'] and not f.get('fn')][0]
            loc = ['%s:%s' % (sp['file'], sp['line']) for sp in f0.get('spans', []) if sp.get('primary')]
            verus_undecided = 'verus reports a failed obligation in code that is under no contract (%s at %s)' % (f0['message'], ', '.join(loc) or '?')
        elif [f for f in fails if f['kind'] == 'undecided' and (pid in (f['props'] or []) or ('~' + pid) in (f['props'] or []))]:
            ws = sorted(set(f['why'] for f in fails if f['kind'] == 'undecided' and f.get('why') and (pid in (f['props'] or []) or ('~' + pid) in (f['props'] or []))))
            verus_undecided = ('an obligation of this property cannot be decided by Verus: ' + '; '.join(ws)) if ws else 'verus resource limit / unsupported on an obligation of this property'
        via = [f for f in fails if f['kind'] == 'violation' and ('~' + pid) in (f['props'] or [])]
        if via and verus_undecided is None:
            via_note = ('the proof route of this property runs through %s, which no longer verifies against its RFC specification; '
                        'that does not refute %s itself' % (sorted(set(f.get('fn') or '?' for f in via)), pid))
    if verus_undecided is None:
        # ---- obligations of this property in the Verus run
        for fn in index:
            mine = [t for t in fn['tags'] if pid in t['props']]
            if not mine:
                continue
            fn_set.append(fn)
            for t in mine:
                sc = re.sub(r'\\\\[bB()$]|\\\\', '', fn['scopes'][-1])[:60] + '::' if fn['scopes'] else ''
                name = '%s::%s%s clause@+%d' % (fn['rel'], sc, fn['fname'], t['line'] - fn['start'])
                if fn['external']:
                    obligations.append({'name': name, 'backend': 'assumed-in-verus', 'discharged_by': fn['discharged_by'], 'status': 'assumed'})
                else:
                    obligations.append({'name': name, 'backend': 'verus', 'status': 'discharged', 'file': fn['rel'], 'line': t['line'], 'fname': fn['fname']})
            if not fn['external'] and fn['has_body']:
                obligations.append({'name': '%s::%s body-safety (no overflow/oob/unwrap/assert failure, callee preconditions)' % (fn['rel'], fn['fname']),
                                    'backend': 'verus', 'status': 'discharged', 'file': fn['rel'], 'fn': fn['fname']})
        for name, li in lem.items():
            if pid in li['props']:
                obligations.append({'name': 'lemma %s' % name, 'backend': 'verus', 'status': 'discharged', 'lemma': name})

        my_fails = [f for f in fails if f['kind'] == 'violation' and pid in (f['props'] or [])]
        for f in my_fails:
            hit = False
            for o in obligations:
                if o['backend'] != 'verus':
                    continue
                if f.get('clause') and o.get('line') and f['clause'] == '%s:%d' % (o['file'], o['line']):
                    o['status'] = 'FAILED'; o['detail'] = f['message']; hit = True
                elif f.get('fn') and o.get('fn') and f['fn'] == '%s::%s' % (o['file'], o['fn']) and 'postcondition' not in f['message']:
                    o['status'] = 'FAILED'; o['detail'] = f['message']; hit = True
                elif (f.get('fn') or '').startswith('lemma ') and o.get('lemma') == f['fn'][6:]:
                    o['status'] = 'FAILED'; o['detail'] = f['message']; hit = True
            if not hit:
                obligations.append({'name': '%s %s' % (f.get('fn'), f.get('clause')), 'backend': 'verus', 'status': 'FAILED', 'detail': f['message']})

        # expected verified-function set: every contracted fn must actually have been verified
        fb = vz['functions']
        missing = []
        for fn in fn_set:
            if fn['external'] or not fn['has_body']:
                continue
            cands = [x for x in fb if x['function'].split('::')[-1] == fn['fname']]
            if not cands:
                missing.append('%s::%s' % (fn['rel'], fn['fname']))
        if missing:
            verus_undecided = 'functions under contract were not verified by Verus: %s' % missing
        n_verus = len([o for o in obligations if o['backend'] == 'verus'])

    # ---- Kani obligations
    # when Verus cannot decide (unsupported construct, new helper without contract ...) the property's slower Kani
    # harnesses are run as well, whatever the tier: they may still refute the property on the real code
    ktier = 'thorough' if verus_undecided else tier
    kres = kani_run.run_for_property(pid, ktier, seed) if not os.environ.get('VERIF_SKIP_KANI') else {'status': 'ok', 'harnesses': [], 'counterexamples': {}}
    if kres.get('status') == 'undecided':
        kres = {'harnesses': [{'name': '(kani build)', 'ok': False, 'undecided': True, 'detail': kres.get('reason')}], 'counterexamples': {}}
    for h in kres.get('harnesses', []):
        obligations.append({'name': 'kani %s' % h['name'], 'backend': 'kani/cbmc' + (' (BOUNDED: %s)' % h['bound'] if h.get('bound') else ' (complete: full input domain)'),
                            'status': 'discharged' if h['ok'] else ('UNDECIDED' if h.get('undecided') else 'FAILED'),
                            'detail': h.get('detail'), 'time_s': h.get('time_s'), 'bounded': bool(h.get('bound'))})
    # ---- rustc trait-solver obligations
    import rustc_run
    rres = rustc_run.run(pid) if not os.environ.get('VERIF_SKIP_KANI') else []
    for h in rres:
        obligations.append({'name': h['name'], 'backend': 'rustc trait solver', 'status': 'discharged' if h['ok'] else ('UNDECIDED' if h.get('undecided') else 'FAILED'),
                            'detail': h.get('detail'), 'time_s': h.get('time_s')})
        if not h['ok'] and not h.get('undecided'):
            kres.setdefault('counterexamples', {})[h['name']] = 'rustc rejects the obligation (no input needed: it fails for every execution):\n' + (h.get('log') or '')

    # ---- RFC 9180 A.1.1 known answers, run natively (C02 only): not a proof obligation.  On the unchanged tree it validates
    # the transcription of spec/rfc9180.rs (assumption D: the code is PROVED equal to the spec functions and reproduces the
    # RFC's published vector); when it fails it is a concrete failing input for "byte-identical to RFC 9180"
    kat = None
    if pid == 'C02' and not os.environ.get('VERIF_SKIP_KANI'):
        import kat_run
        try:
            kat = kat_run.run()
        except Exception as e:
            kat = {'ok': False, 'failed_natively': False, 'compiled': False, 'output': repr(e)}
        if kat.get('failed_natively'):
            obligations.append({'name': 'RFC 9180 Appendix A.1.1 known answers (native run of the real code)', 'backend': 'native known-answer run',
                                'status': 'FAILED', 'detail': 'the real code does not reproduce the published vector'})
            kres.setdefault('counterexamples', {})['RFC 9180 Appendix A.1.1 known answers (native run of the real code)'] = \
                'FAILS natively (the published RFC 9180 A.1.1 vector is the failing input):\n' + kat['output']

    # ---- SEC 2 base-point known answers for the NIST curves, run natively (C12 only): BOUNDED stand-in (one input per curve)
    # for the bodies of the NIST write_exact / dh functions, which are trusted one-line delegations in the Verus run.
    # Never counted as proved; a native failure is a concrete failing input (the published generator of the curve).
    nist_kat = None
    if pid == 'C12' and not os.environ.get('VERIF_SKIP_KANI'):
        import kat_run
        nm = 'NIST write_exact/from_bytes/dh on the SEC 2 generator of P-256, P-384, P-521 (native run of the real code)'
        try:
            nist_kat = kat_run.run_nist()
        except Exception as e:
            nist_kat = {'ok': False, 'failed_natively': False, 'compiled': False, 'output': repr(e)}
        st = 'discharged' if nist_kat.get('ok') else ('FAILED' if nist_kat.get('failed_natively') else 'UNDECIDED')
        obligations.append({'name': nm, 'backend': 'native known-answer run (BOUNDED: 1 input per curve - sk = 1, pk = G)', 'status': st,
                            'detail': nist_kat.get('output'), 'time_s': nist_kat.get('time_s'), 'bounded': True})
        if st == 'FAILED':
            kres.setdefault('counterexamples', {})[nm] = \
                'FAILS natively (failing input: private key 1 / the published base point of the curve, kat/nist_kat.rs):\n' + nist_kat['output']

    # ---- vacuity guards
    vac = []
    if tier == 'thorough' and verus_undecided is None:
        c = res.get('canary', {})
        if not c.get('compiled', False):
            vac.append('canary run did not compile')
        elif c.get('did_not_fail'):
            mine = [x for x in c['did_not_fail'] if any(x == '%s::%s' % (fn['rel'], fn['fname']) for fn in fn_set)]
            if mine:
                vac.append('vacuous contracts (canary `false` postcondition verified): %s' % mine)
        cl = res.get('canary_lemmas', {})
        lem_mine = [n for n, li in lemma_props().items() if pid in li['props']]
        if [n for n in cl.get('vacuous', []) if n in lem_mine]:
            vac.append('vacuous lemmas: %s' % [n for n in cl['vacuous'] if n in lem_mine])
        if res.get('seed2') and not res['seed2']['agree']:
            vac.append('solver seeds disagree')
    n_verus = len([o for o in obligations if o['backend'] == 'verus'])
    if n_verus + len(kres.get('harnesses', [])) + len(rres) == 0 and verus_undecided is None:
        vac.append('no obligations generated')

    failed = [o for o in obligations if o['status'] == 'FAILED']
    if pid == 'C01' and failed:
        # C01 is an AGREEMENT property: a deviation from the RFC specification that appears on both the sender-side
        # and the receiver-side function of a pair is symmetric and does not refute the round trip -> undecided
        vf = [o for o in failed if o['backend'] == 'verus']
        sides = set(P.c01_side(o['name']) for o in vf)
        only_post = all('clause@' in o['name'] for o in vf)
        if 'S' in sides and 'R' in sides and only_post:
            via_note = 'both the sender-side and the receiver-side function deviate from the RFC specification (possibly symmetrically): C01 is neither proved nor refuted'
            for o in failed:
                if o['backend'] == 'verus':
                    o['status'] = 'UNDECIDED'
            failed = [o for o in obligations if o['status'] == 'FAILED']
    if via_note and not failed:
        say('UNDECIDED property=%s %s' % (pid, via_note))
        return 2
    # counterexample search for failed Verus obligations that have a Kani twin on the same real function
    def twin_of(fnq):
        # fnq = 'file.rs::fname'; twins are keyed by 'file.rs::fname' or by the bare function name
        return kani_run.TWINS.get(fnq) or kani_run.TWINS.get(fnq.split('::')[-1])
    twin_names = sorted(set(twin_of(f['fn']) for f in my_fails if f.get('fn') and twin_of(f['fn'])))
    have = set(h['name'] for h in kres.get('harnesses', []))
    twin_names = [t for t in twin_names if t not in have]
    if failed and twin_names and not os.environ.get('VERIF_SKIP_KANI'):
        k2 = kani_run.run_for_property('-', tier, seed, extra_names=twin_names)
        for h in k2.get('harnesses', []):
            if not h['ok'] and not h.get('undecided'):
                txt = k2.get('counterexamples', {}).get('kani %s' % h['name'])
                for o in failed:
                    fnn = o.get('fn') or o.get('fname') or ''
                    fq = '%s::%s' % (o.get('file') or o['name'].split('::')[0], fnn)
                    if o['backend'] == 'verus' and twin_of(fq) == h['name'] and txt:
                        kres.setdefault('counterexamples', {})[o['name']] = 'Kani twin harness on the same real function:\n' + txt
    # failed Verus obligations of the DHKEM bodies: look for a concrete failing input natively (kat/auth_kat.rs recomputes the
    # RFC 9180 section 4.1 shared secret of Encap/AuthEncap/Decap/AuthDecap from the crate's own DH and ExtractAndExpand).
    # Only ever run after an obligation has failed: it can attach an input to a violation, it cannot create or remove one.
    dh_failed = [o for o in failed if o['backend'] == 'verus' and ('encap_with_eph' in o['name'] or 'decap_body' in o['name'])]
    if dh_failed and not os.environ.get('VERIF_SKIP_KANI'):
        import kat_run
        try:
            ak = kat_run.run_auth()
        except Exception as e:
            ak = {'failed_natively': False, 'output': repr(e)}
        if ak.get('failed_natively'):
            for o in dh_failed:
                # attach the input only to the function the native run actually shows deviating
                if ('MISMATCH encap_with_eph' if 'encap_with_eph' in o['name'] else 'MISMATCH decap_body') not in ak['output']:
                    continue
                prev = kres.get('counterexamples', {}).get(o['name'])
                kres.setdefault('counterexamples', {})[o['name']] = (
                    'FAILS natively (failing input: DHKEM(X25519, HKDF-SHA256) / DHKEM(P-256, HKDF-SHA256) with the key pairs '
                    'derive_keypair(b"verif kat recipient ikm" / b"verif kat sender ikm" / b"verif kat ephemeral ikm"), kat/auth_kat.rs; '
                    'rerun: python3 tools/kat_run.py auth):\n' + ak['output'] + ('\n\n' + prev if prev else ''))
    # a definite violation from any back end is reported even when another back end is undecided
    if not failed:
        if verus_undecided:
            say('UNDECIDED property=%s %s' % (pid, verus_undecided))
            return 2
        und = [o['name'] + ': ' + str(o.get('detail'))[:300] for o in obligations if o['status'] == 'UNDECIDED']
        if und:
            say('UNDECIDED property=%s: %s' % (pid, und))
            return 2
        if vac:
            say('UNDECIDED property=%s vacuity guard: %s' % (pid, vac))
            return 2
    # known findings
    kf = json.load(open(os.path.join(V, 'known_findings.json')))['findings']
    known_open = [k for k in kf if k['status'] == 'open' and k['property'] == pid]
    reported = []
    for o in failed:
        k = next((k for k in known_open if k.get('obligation') and k['obligation'] in o['name']), None)
        if k:
            say('KNOWN-FINDING: property=%s %s' % (pid, k['line']))
        else:
            reported.append(o)

    wall = time.time() - t0
    discharged = [o for o in obligations if o['status'] == 'discharged']
    counted = [o for o in obligations if o['status'] in ('discharged', 'FAILED') and not o.get('bounded') and not o['backend'].startswith('native known-answer run')]
    assumed = [o for o in obligations if o['status'] == 'assumed']
    bounded = [o for o in obligations if o.get('bounded')]
    ev = {
        'property_id': pid, 'tier': tier, 'seed': seed, 'level': meta['level'],
        'coverage': {
            'obligations': len(counted),
            'discharged': len([o for o in counted if o['status'] == 'discharged']),
            'checker_cmd': 'python3 tools/check.py %s --tier %s  [verus: %s]' % (pid, tier, res.get('verus_cmd', '')[:600]),
            'trusted_base': P.trusted_base(pid, res) if res['status'] == 'ok' else list(P.BASE),
            'functions_under_contract': sorted(set('%s::%s%s' % (fn['rel'], fn['fname'], ' [assumed in Verus, discharged by %s]' % fn['discharged_by'] if fn['external'] else '') for fn in fn_set)),
            'samples': [o['name'] for o in obligations[:12]],
            'verus_status': verus_undecided or 'ok',
            'assumption_validation': ({'rfc9180_A_1_1_known_answers_native': kat} if kat else ({'sec2_base_point_known_answers_native': nist_kat} if nist_kat else None)),
            'backends': {'verus': {'obligations': n_verus, 'whole_crate_verified_fns': vz['verified'], 'whole_crate_errors': vz['errors'],
                                   'smt_ms': vz.get('smt_ms'), 'wall_s': vz.get('wall_s'), 'cached_shared_run': res.get('cached', False)},
                         'kani': {'harnesses': [{k: h.get(k) for k in ('name', 'ok', 'time_s', 'bound', 'complete')} for h in kres.get('harnesses', [])]},
                         'rustc': rres},
            'bounded_stand_ins_not_counted_as_proved': [o['name'] + ' ' + o['backend'] for o in bounded],
            'assumed_in_verus_discharged_elsewhere': [{'obligation': o['name'], 'by': o['discharged_by']} for o in assumed],
            'splice_normalisations': res.get('splice', {}).get('counts'),
            'vacuity': {'canary': res.get('canary'), 'canary_lemmas': res.get('canary_lemmas'), 'seed2': res.get('seed2')} if tier == 'thorough' else 'quick tier: obligation-count guard only',
            'explanation': meta['explanation'],
        },
        'assumptions': P.assumptions(pid, res) if res['status'] == 'ok' else list(P.BASE),
        'wall_s': round(wall, 2),
        'violations': len(reported),
    }
    os.makedirs(os.path.dirname(ev_path), exist_ok=True)
    json.dump(ev, open(ev_path, 'w'), indent=1)

    if reported:
        os.makedirs(os.path.join(OUT, 'replays'), exist_ok=True)
        for i, o in enumerate(reported):
            rp = os.path.join(OUT, 'replays', '%s_%d.txt' % (pid, i))
            cex = kres.get('counterexamples', {}).get(o['name'])
            native = bool(cex) and ('FAILS natively' in cex or o['backend'] == 'rustc trait solver')
            with open(rp, 'w') as fh:
                fh.write('property: %s\nfailed obligation: %s\nback end: %s\nverifier says: %s\n\n' % (pid, o['name'], o['backend'], o.get('detail')))
                for f in my_fails:
                    fh.write(f.get('rendered', '') + '\n')
                if cex:
                    fh.write('\ncounterexample / verifier output:\n' + cex + '\n')
                if not (cex and native):
                    fh.write('\nno-failing-input-found: the verifier gives no concrete input for this obligation\n')
            say('VIOLATION property=%s replay=%s obligation="%s" %s' % (pid, rp, o['name'], '' if (cex and native) else 'no-failing-input-found'))
        return 1
    say('OK property=%s tier=%s obligations=%d discharged=%d (verus %d, kani %d; assumed-in-verus %d, bounded %d) wall=%.1fs'
        % (pid, tier, len(counted), len(counted), n_verus, len(kres.get('harnesses', [])), len(assumed), len(bounded), wall))
    return 0


if __name__ == '__main__':
    try:
        rc = main()
    except SystemExit:
        raise
    except BaseException as e:   # an internal error of the machinery is never an alarm
        import traceback
        traceback.print_exc()
        say('UNDECIDED internal error of the checker: %r' % (e,))
        rc = 2
    sys.exit(rc)
