#!/bin/bash
# Build the dependency rlibs of /repo with the Verus-pinned toolchain (offline) so that
# `verus` can be run as the compiler of the spliced real crate; warm the Kani dependency build.
set -euo pipefail
export CARGO_NET_OFFLINE=true
V=$(cd "$(dirname "$0")/.." && pwd)
C=$V/.cache
mkdir -p "$C"
rm -rf "$C/depsrc"; mkdir -p "$C/depsrc"
rsync -a --exclude target --exclude .git /repo/ "$C/depsrc/"
( cd "$C/depsrc" && cargo +1.98.1-x86_64-unknown-linux-gnu build --offline --lib \
    --features std,p384,p521 --target-dir "$C/verus-target" -v ) > "$C/depbuild.log" 2>&1 || { tail -30 "$C/depbuild.log"; exit 1; }
# the exact --extern list cargo handed to rustc for the hpke lib (picks the right crate versions)
if grep -q -- '--crate-name hpke ' "$C/depbuild.log"; then
  grep -- '--crate-name hpke ' "$C/depbuild.log" | tail -1 | grep -o -- '--extern [a-z0-9_]*=[^ ]*' \
     | sed -e 's/^--extern //' -e 's/`$//' > "$C/verus-target/externs.txt"
fi
test -s "$C/verus-target/externs.txt"
sha256sum /repo/Cargo.toml /repo/Cargo.lock | sha256sum | cut -d' ' -f1 > "$C/verus-target/.lockhash"
rm -rf "$C/depsrc"
echo "setup: verus dependency rlibs ready under $C/verus-target"
# warm the shared Kani dependency build (tools/kani_run.py PrivateTarget: checks copy it, never write to it afterwards)
( cd "$V" && python3 tools/kani_run.py --warm ) > "$C/kani-warm.log" 2>&1 || echo "setup: kani warm-up did not complete (the first check builds the dependencies instead)"
echo "setup: done"
