"""Per-property metadata: level, deciding technique, explanation, assumptions."""
import os, re, json

V = os.path.dirname(os.path.dirname(os.path.abspath(__file__)))

A_DEPS = ('assumed contracts on dependencies (spec/deps.rs: assume_specification / external_trait_specification): '
          'hkdf Extract/Expand incl. Err <=> L > 255*Nh, aead encrypt/decrypt_in_place_detached and KeyInit as functions of the key, '
          'generic_array slice views and length = typenum value, typenum constants, rand_core fill_bytes as a byte stream, '
          'x25519_dalek / p256 / p384 / p521 key (de)serialisation and DH, subtle ct_eq, <[T]>::to_vec')
A_CRYPTO = ('cryptographic primitives are uninterpreted (AES-GCM, ChaCha20-Poly1305, HMAC/HKDF-SHA2, X25519 and NIST curve arithmetic are NOT verified)')
A_FLAGS = ('Verus flags --no-trait-conflicts (typenum supertrait in a private module) and --no-lifetime (proof code only; rustc borrow-checks the real code); '
           'machine integers are machine integers (no mathematical-integer abstraction of exec code)')
A_SPEC = 'spec/rfc9180.rs is a hand transcription of RFC 9180 sections 4-7 and is the oracle'
A_SPLICE = ('the verified text is /repo/src copied and spliced on every run; normalisations N1-N6 (DESIGN.md section 3) are assumed value-preserving')
A_IDEAL = ('property-level lemmas use cryptographic idealisations stated as axioms in spec/lemmas.rs (AEAD correctness and authenticity, '
           'HKDF collision-freeness, DH commutativity / public-key injectivity); these are computational facts, not theorems')

BASE = [A_DEPS, A_CRYPTO, A_FLAGS, A_SPEC, A_SPLICE]

PROPS = {}

def prop(pid, level, technique, explanation, extra=(), text=None, note=None):
    PROPS[pid] = {'level': level, 'technique': technique, 'explanation': explanation, 'extra': list(extra),
                  'text': text or explanation, 'note': note or '; '.join(BASE[:2])}

prop('C04', 'proof', 'Verus contracts on the real seal_in_place_detached + induction lemma; Kani full-domain proofs of mix_nonce/increment_seq/write_u64_be',
     'seal_in_place_detached is verified against: nonce = base_nonce XOR I2OSP(seq, Nn); on success the whole abstract state is the old one with seq+1, '
     'or with the overflow latch set exactly when seq = 2^64-1 was just used; after the latch it returns MessageLimitReached with buffer and state untouched. '
     'A Verus induction lemma over arbitrary call histories concludes that successful seals use pairwise distinct nonces.')
prop('C05', 'proof', 'Verus contracts on the real open / open_in_place_detached + history lemma',
     'open_in_place_detached and open are verified against aead_open_spec under nonce(base, seq): failure leaves the whole abstract state unchanged, success advances by '
     'exactly one, exhaustion returns MessageLimitReached for every call (F1 fixed). The history lemma states which triple is accepted after any history.', extra=[A_IDEAL])
prop('C11', 'proof', 'Verus contracts on the real export functions (AeadCtx/AeadCtxS/AeadCtxR::export) against LabeledExpand(exporter_secret,"sec",ctx,L)',
     'export is verified to return Ok exactly when L <= 255*Nh, else KdfOutputTooLong, with output = RFC 9180 Context.Export; it takes &self so the state is untouched; '
     'seal/open postconditions give the whole final state so exporter_secret and suite_id are proved unchanged by any history.')
prop('C14', 'proof', 'Verus contracts: single_shot_* equal the composition of the setup and seal/open spec functions (values and errors)',
     'each single_shot function is verified modularly from the contracts of setup_sender/setup_receiver and seal/open; open is verified equal to the in-place open on the split; '
     'the allocating seal body is outside Verus (Vec range-index) and has a bounded Kani stand-in, labelled bounded.')
prop('C15', 'proof', 'Verus contracts on PskBundle::new and the OpMode getters, and on derive_enc_ctx (where psk / psk_id enter the schedule)',
     'PskBundle::new is verified Ok <=> (psk empty <=> psk_id empty), else InvalidPskBundle; getters equal RFC table 1 / defaults; derive_enc_ctx proves the bundle key is the IKM of '
     '"secret" and the id the input of "psk_id_hash".')
prop('C02', 'proof', 'Verus contracts: every function on the path equals the RFC 9180 spec function (spec/rfc9180.rs)',
     'labeled_extract/expand, extract_and_expand, suite ids, derive_enc_ctx (KeySchedule), setup_sender/receiver, seal/open/export, DHKEM encap/decap are each verified equal '
     'to the RFC pseudo-code written as spec functions; identifiers and sizes are proved per algorithm type.')
prop('C13', 'proof', 'Verus default obligations (no overflow, out-of-bounds, failing unwrap/expect/assert, callee preconditions) on every function under contract, no precondition on byte strings',
     'every verified function is proved panic-free for all inputs under the type-level side condition suite_ok only; setup_sender can fail only with EncapError and setup_receiver only with DecapError.')

prop('C03', 'proof', 'Verus contracts on each DHKEM macro instance (X25519, P-256, P-384, P-521): encap_with_eph / decap / encap / derive_keypair / gen_keypair equal RFC 9180 section 4.1 and 7.1.3 spec functions',
     'each of the four instances of impl_dhkem! is verified separately: Encap/AuthEncap/Decap/AuthDecap equal dhkem_encap_spec/dhkem_decap_spec (DH order, kem_context order, KEM suite id, '
     'eae_prk/shared_secret labels, Nsecret = Nh), X25519 DeriveKeyPair equals LabeledExpand(LabeledExtract("", "dkp_prk", ikm), "sk", "", 32), gen_keypair = derive of Nsk RNG bytes. '
     'The NIST candidate loop body is not yet under contract (assumed), stated in the evidence.')
prop('C09', 'proof', 'Verus contract on Deserializable::from_bytes (trait level, restated on every impl) for the NIST public keys and encapsulated keys; Kani for the private-key glue',
     'from_bytes is verified for all lengths: wrong length -> IncorrectInputLength(expected, given) before any parser runs; right length -> Ok exactly when the dependency accepts '
     '(sec1_valid / scalar_ok), otherwise ValidationError; the parsed value re-serializes to the input. What the dependency accepts is an assumed contract.')
prop('C10', 'proof', 'Verus contracts: encap_with_eph / decap fail with EncapError / DecapError exactly when a DH step fails, at all four dh() call sites; setup propagates unchanged; Kani for the zero comparison in X25519::dh',
     'for the X25519 instance s_dh(sk, pk) is None exactly when X25519(sk, pk) is all-zero; encap_with_eph/decap are verified to return Err(EncapError)/Err(DecapError) iff some DH is None, '
     'and setup_sender/setup_receiver/single_shot_* to propagate it with no context produced; non-zero results are never rejected (iff).')
prop('C12', 'proof', 'Verus contracts on Serializable/Deserializable (sizes via typenum values, IncorrectInputLength(expected, given), ser(from_bytes(b)) == b); Kani for write_exact bodies and must-panic',
     'from_bytes is verified for X25519 keys, NIST public keys, encapsulated keys of the 4 KEMs and AEAD tags; to_bytes/write_exact preconditions (exact buffer length) are proved at every internal call site. The NIST write_exact / dh bodies are trusted one-line delegations to the curve crates in the Verus run; a BOUNDED native known-answer run on the SEC 2 generator of each curve (kat/nist_kat.rs, one input per curve) stands in for them and is never counted as proved.')
prop('C01', 'proof', 'Verus: function contracts (setup, encap/decap, seal/open) + round-trip lemmas over the contracts (induction over the message index)',
     'setup_sender and setup_receiver are verified equal to the same key-schedule spec function; encap and decap to dhkem_encap_spec / dhkem_decap_spec; the agreement lemma shows the two abstract contexts are equal '
     'when pkR = pk(skR) (DH commutativity axiom), and the sequence lemma shows the i-th sealed message opens to the i-th plaintext for every sequence length.', extra=[A_IDEAL])
prop('C06', 'proof', 'Verus contracts on open / open_in_place_detached / single_shot_open* (aad, ciphertext and tag are passed unchanged to the AEAD; tag = last Nt bytes) + lemmas reducing integrity to AEAD unforgeability',
     'the opening functions are verified to return Ok(pt) exactly when aead_open_spec(key, nonce(seq), aad, ct, tag) is Some(pt), with aad/ct/tag forwarded unchanged and the allocating form splitting at len-Nt, '
     'and OpenError with the state untouched otherwise; lemmas: a triple that is not itself a Seal output is rejected; appending/removing/flipping bytes of ct||tag changes the (ct, tag) pair; short inputs are OpenErrors. '
     'That AES-GCM / ChaCha20-Poly1305 are unforgeable is the explicit hypothesis of the reduction.', extra=[A_IDEAL])
prop('C07', 'proof', 'Verus contracts tie setup to key_schedule_spec / dhkem specs; binding lemmas over those spec functions (injectivity of the fixed-layout encodings) reduce context binding to HKDF collision-freeness',
     'derive_enc_ctx/setup_* are verified equal to the RFC key schedule over (suite_id, mode, shared_secret, info, psk, psk_id); lemma_key_schedule_binding proves that equal key / base_nonce / exporter_secret '
     'force ALL of those inputs equal unless one of the listed HKDF calls collides (explicit hypothesis); suite ids are injective in (kem, kdf, aead); exports bind exporter_secret and context; the KEM secret binds dh and kem_context. '
     'The step from "different key" to "cannot open" is the AEAD wrong-key assumption, stated in DESIGN.md, not formalised.', extra=[A_IDEAL])
prop('C08', 'proof', 'Verus contracts on AuthEncap/AuthDecap and the mode getters + lemmas: the receiver derives the sender secret only if the sender key matches pkS',
     'encap_with_eph/decap are verified to use dh = DH(skE,pkR)||DH(skS,pkR) and kem_context = enc||pkRm||pkSm, get_sender_id_keypair/get_pk_sender_id to return the key material exactly in the Auth modes, '
     'psk to enter `secret`; lemma_auth_requires_sender_key: equal secrets force pk(sk_used) == pkS (DH commutativity axiom, DH injectivity and HKDF collision-freeness as explicit hypotheses); '
     'lemma_unauth_sender_rejected: a non-auth sender never matches.', extra=[A_IDEAL])
prop('C16', 'proof', 'Kani on the real Drop impls with the real zeroize (asm barrier stubbed): after drop_in_place every byte of the secret is zero, for ALL byte values',
     'AeadKey / AeadNonce (per AEAD), ExporterSecret (per KDF), SharedSecret (any alignment 0..7) and the base_nonce / exporter_secret fields of a dropped context are proved all-zero after the drop for every value of the secret. '
     'Third clause (temporary AEAD key wiped before setup returns): the key buffer in derive_enc_ctx is an AeadKey<A> that is only borrowed by AeadCtx::new (Verus-verified signature) plus the proved Drop; that Rust runs the drop at scope exit is language semantics.',
     note='Kani/CBMC memory model; zeroize::optimization_barrier (inline asm, a semantic no-op) is stubbed; Rust drop placement is assumed; a mem::forget/ManuallyDrop wrapper around the temporary would not be detected')
prop('C18', 'proof', 'Verus postconditions: every result is a pure spec function of arguments, RNG stream and the context view; Kani self-composition of gen_keypair; rustc trait solver for Send/Sync and forbid(unsafe_code)',
     'every operation under contract has a postcondition result == f(arguments, rng_stream, self.view()) with f a spec function, and the RNG stream advances by exactly Nsk bytes; export takes &self; '
     'gen_keypair is run twice with unrelated activity in between (Kani, model KEM, sound by parametricity) and must return derive_keypair of the bytes drawn; Send + Sync of every public value type x suite and absence of unsafe are rustc obligations. '
     'No thread interleaving is explored: that concurrent &self exports equal sequential ones is Rust aliasing semantics (assumed).',
     note='Rust type system soundness for Send/Sync; no schedule exploration (Kani has no threads)')

def trusted_base(pid, res):
    tb = list(BASE) + PROPS[pid]['extra']
    for (f, fn, by) in res['splice']['external_body']:
        tb.append('external_body %s::%s -> %s' % (f, fn, by))
    return tb


def scan_assumptions():
    """mechanical scan of the ghost files for every assume/admit/axiom/external_body/assume_specification"""
    out = []
    for f in ('deps.rs', 'rfc9180.rs', 'lemmas.rs', 'macros.rs'):
        p = os.path.join(V, 'spec', f)
        if not os.path.exists(p):
            continue
        txt = open(p).read()
        n_as = len(re.findall(r'\bassume_specification\b', txt))
        n_ax = len(re.findall(r'\baxiom fn\b', txt))
        n_ext = len(re.findall(r'external_trait_specification|external_type_specification', txt))
        n_eb = len(re.findall(r'external_body', txt))
        n_assume = len(re.findall(r'\bassume\s*\(|\badmit\s*\(', txt))
        n_un = len(re.findall(r'\buninterp spec fn\b', txt))
        out.append('spec/%s: %d assume_specification, %d axioms, %d external trait/type specs, %d external_body, %d uninterpreted spec fns, %d assume()/admit()'
                   % (f, n_as, n_ax, n_ext, n_eb, n_un, n_assume))
    return out


def assumptions(pid, res):
    return trusted_base(pid, res) + scan_assumptions()

# properties whose machinery is not finished yet (kept out of `checks` until their obligations are discharged)
NOT_YET = {p: 'not claimed yet: contracts for this property are still being built in this session (see DESIGN.md section 7 for the plan)'
           for p in () if p not in PROPS}


def c01_side(name):
    """sender-side / receiver-side classification of a function under contract (C01 pairing rule)"""
    n = name
    if re.search(r'OpModeS|get_sender_id_keypair|encap_with_eph|encap_body|setup_sender|seal', n):
        return 'S'
    if re.search(r'OpModeR|get_pk_sender_id|decap_body|setup_receiver|open', n):
        return 'R'
    return 'shared'
