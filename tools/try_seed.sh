#!/bin/bash
# try_seed.sh <seed-dir> [props...] : apply a seeded change to /repo, run the given checks (default: the
# property named in meta.json), undo the change.  Prints one line per check.
set -u
D=$1; shift
P=${@:-$(python3 -c "import json;print(json.load(open('$D/meta.json'))['property'])")}
cd /repo && git apply "$D/patch.diff" || { echo "APPLY-FAILED $D"; exit 3; }
cd /verif
for p in $P; do
  out=$(python3 tools/check.py $p --tier ${TIER:-quick} 2>&1); rc=$?
  echo "$(basename $D) $p rc=$rc $(echo "$out" | grep -E '^(VIOLATION|UNDECIDED|OK|KNOWN)' | head -3 | cut -c1-300 | tr '\n' '|')"
done
git -C /repo checkout -- . ; git -C /repo clean -fdq
