#!/bin/bash
# try_seed.sh <seed-dir> [props...] : apply a seeded change to a private scratch COPY of /repo (never to /repo
# itself: an interrupted in-place trial once left a mutant in /repo's working tree, see DESIGN.md section 11, F2),
# run the given checks (default: the property named in meta.json) against the copy via VERIF_REPO, remove the copy.
# Prints one line per check.
set -u
D=$(readlink -f "$1"); shift
P=${@:-$(python3 -c "import json;print(json.load(open('$D/meta.json'))['property'])")}
HERE=$(dirname "$(dirname "$(readlink -f "$0")")")
W=$(mktemp -d /tmp/hpke_seed_XXXXXX)
trap 'rm -rf "$W"' EXIT INT TERM
rsync -a --exclude target --exclude .git /repo/ "$W/"
( cd "$W" && git apply "$D/patch.diff" ) || { echo "APPLY-FAILED $D"; exit 3; }
cd "$HERE"
for p in $P; do
  out=$(VERIF_REPO=$W python3 tools/check.py $p --tier ${TIER:-quick} 2>&1); rc=$?
  echo "$(basename $D) $p rc=$rc $(echo "$out" | grep -E '^(VIOLATION|UNDECIDED|OK|KNOWN)' | head -3 | cut -c1-300 | tr '\n' '|')"
done
