"""Build the spliced scratch copy of /repo/src and run Verus on it as the compiler of the real crate."""
import hashlib, importlib, json, os, re, shutil, subprocess, sys, tempfile, time
sys.path.insert(0, os.path.dirname(__file__))
V = os.path.dirname(os.path.dirname(os.path.abspath(__file__)))
sys.path.insert(0, V)
from splice import FileSplice, Stats, Unsupported, index_file
from rsyn import LostAnchor

REPO = os.environ.get('VERIF_REPO', '/repo')
CACHE = os.path.join(V, '.cache')
EXTRA_EXTERNS = ['aes', 'cipher', 'chacha20', 'elliptic_curve', 'primeorder', 'sec1', 'crypto_common']
FEATURES = ['alloc', 'std', 'x25519', 'p256', 'p384', 'p521']

# source file -> contract module
CONTRACT_MODULES = [
    ('lib.rs', 'c_lib'),
    ('util.rs', 'c_util'),
    ('kdf.rs', 'c_kdf'),
    ('op_mode.rs', 'c_op_mode'),
    ('aead.rs', 'c_aead'),
    ('aead/aes_gcm.rs', 'c_aead_impls'),
    ('aead/chacha20_poly1305.rs', 'c_aead_impls'),
    ('aead/export_only.rs', 'c_aead_impls'),
    ('setup.rs', 'c_setup'),
    ('single_shot.rs', 'c_single_shot'),
    ('dhkex.rs', 'c_dhkex'),
    ('dhkex/x25519.rs', 'c_x25519'),
    ('dhkex/ecdh_nistp.rs', 'c_nistp'),
    ('kem.rs', 'c_kem'),
    ('kem/dhkem.rs', 'c_dhkem'),
]


def tree_hash(extra=()):
    h = hashlib.sha256()
    roots = [os.path.join(REPO, 'src'), os.path.join(V, 'spec'), os.path.join(V, 'contracts'), os.path.join(V, 'tools'), os.path.join(V, 'kani')]
    files = [os.path.join(REPO, 'Cargo.toml'), os.path.join(REPO, 'Cargo.lock')]
    for r in roots:
        for d, _, fs in os.walk(r):
            if '__pycache__' in d:
                continue
            for f in fs:
                if f.endswith('.pyc'):
                    continue
                files.append(os.path.join(d, f))
    for f in sorted(files):
        h.update(f.encode())
        try:
            h.update(open(f, 'rb').read())
        except OSError:
            h.update(b'<missing>')
    for e in extra:
        h.update(str(e).encode())
    return h.hexdigest()[:24]


def build_scratch(out, only=None, canary=False):
    """copy /repo/src to out/src and splice the contracts; returns Stats.  Raises LostAnchor/Unsupported."""
    src = os.path.join(out, 'src')
    if os.path.exists(src):
        shutil.rmtree(src)
    shutil.copytree(os.path.join(REPO, 'src'), src)
    stats = Stats()
    for rel, modname in CONTRACT_MODULES:
        if only is not None and rel not in only:
            continue
        try:
            mod = importlib.import_module('contracts.' + modname)
        except ModuleNotFoundError:
            continue
        p = os.path.join(src, rel)
        if not os.path.exists(p):
            raise LostAnchor('source file missing: src/%s' % rel)
        F = FileSplice(rel, open(p).read(), stats)
        mod.apply(F)
        F.wrap_simple_consts()
        stats.index = getattr(stats, 'index', []) + index_file(F, stats.records)
        text = F.s
        if canary:
            text = canary_rewrite(text)
        open(p, 'w').write(text)
    # ghost modules (never part of /repo)
    shim = ''
    for f in ('macros.rs', 'rfc9180.rs', 'deps.rs'):
        shim += '// ---- /verif/spec/%s ----\n' % f + open(os.path.join(V, 'spec', f)).read() + '\n'
    open(os.path.join(src, 'verif_shim.rs'), 'w').write(shim)
    lem = os.path.join(V, 'spec', 'lemmas.rs')
    open(os.path.join(src, 'verif_lemmas.rs'), 'w').write(open(lem).read() if os.path.exists(lem) else '')
    return stats


def canary_rewrite(text):
    """vacuity canary: conjoin `false` to every spliced ensures block (marker /*@...*/ lines only)"""
    return re.sub(r'(\n\s*ensures\b)', r'\1 false,', text)


def verus_cmd(scratch, extra=(), threads=16):
    ext = []
    for line in open(os.path.join(CACHE, 'verus-target', 'externs.txt')):
        line = line.strip()
        if line:
            ext += ['--extern', line]
    # transitive dependencies whose types appear in associated-type positions: made nameable for the
    # ghost type specifications in spec/deps.rs (affects the scratch compile only)
    import glob
    deps = os.path.join(CACHE, 'verus-target', 'debug', 'deps')
    for c in EXTRA_EXTERNS:
        g = glob.glob(os.path.join(deps, 'lib%s-*.rmeta' % c))
        if len(g) != 1:
            raise Unsupported('cannot pick rmeta for transitive crate %s: %r' % (c, g))
        ext += ['--extern', '%s=%s' % (c, g[0])]
    cmd = ['verus', os.path.join(scratch, 'src', 'lib.rs'), '--crate-name', 'hpke', '--crate-type', 'lib', '--edition=2021']
    for f in FEATURES:
        cmd += ['--cfg', 'feature="%s"' % f]
    cmd += ['-L', 'dependency=' + os.path.join(CACHE, 'verus-target', 'debug', 'deps')] + ext
    cmd += ['--no-trait-conflicts', '--no-lifetime', '--output-json', '--time-expanded', '--error-format=json',
            '--multiple-errors', '20', '--num-threads', str(threads)]
    cmd += list(extra)
    return cmd


def run_verus(scratch, extra=(), timeout=1500, threads=16):
    cmd = verus_cmd(scratch, extra, threads)
    t0 = time.time()
    p = subprocess.run(cmd, capture_output=True, text=True, timeout=timeout, cwd=scratch)
    wall = time.time() - t0
    out = None
    try:
        out = json.loads(p.stdout[p.stdout.index('{'):])
    except Exception:
        pass
    diags = []
    raw = []
    for l in p.stderr.splitlines():
        ls = l.strip()
        if ls.startswith('{'):
            try:
                diags.append(json.loads(ls))
                continue
            except Exception:
                pass
        if ls:
            raw.append(l)
    return {'rc': p.returncode, 'json': out, 'diags': diags, 'raw_stderr': raw, 'wall_s': wall, 'cmd': ' '.join(cmd)}


if __name__ == '__main__':
    import argparse
    ap = argparse.ArgumentParser()
    ap.add_argument('--keep', default=None, help='scratch dir to use and keep')
    ap.add_argument('--only', default=None)
    ap.add_argument('--canary', action='store_true')
    ap.add_argument('rest', nargs='*')
    a = ap.parse_args()
    d = a.keep or tempfile.mkdtemp(prefix='hpke_verif_')
    os.makedirs(d, exist_ok=True)
    try:
        st = build_scratch(d, only=a.only.split(',') if a.only else None, canary=a.canary)
        r = run_verus(d, a.rest)
        print('rc', r['rc'], 'wall %.1fs' % r['wall_s'])
        if r['json']:
            print(json.dumps(r['json'].get('verification-results')))
        for dg in r['diags']:
            if dg.get('level') in ('error', 'warning') and 'rendered' in dg and dg['level'] == 'error':
                print(dg['rendered'])
        for l in r['raw_stderr'][:40]:
            print('RAW', l)
    finally:
        if not a.keep:
            shutil.rmtree(d, ignore_errors=True)
