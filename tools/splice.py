"""Splicer: copies /repo/src into a scratch directory and inserts contracts (Verus requires/ensures,
ghost view functions, `verus!{}` wrappers) around the *unchanged* real items.  See DESIGN.md §3 for
exactly what is changed (normalisations N1..N6) and why each is value preserving.

A lost anchor or an unsupported construct raises LostAnchor/Unsupported -> the caller reports
exit 2 (undecided), never a violation."""
import os, re, shutil, sys
sys.path.insert(0, os.path.dirname(__file__))
from rsyn import *


class Unsupported(Exception):
    pass


USE = ('use vstd::prelude::*;\n#[allow(unused_imports)] use crate::verif_shim::*;\n'
       '#[allow(unused_imports)] use crate::Serializable as _;\n')


def lit_bytes(bs):
    return '[' + ','.join('0x%02xu8' % c for c in bs) + ']'


def seq_bytes(bs):
    return 'seq![' + ','.join('0x%02xu8' % c for c in bs) + ']'


class Stats:
    def __init__(self):
        self.n = {'N1': 0, 'N2': 0, 'N3': 0, 'N5': 0, 'N6': 0, 'wrapped_items': 0, 'contracts': 0,
                  'external_body': 0, 'ghost_items': 0, 'N7': 0}
        self.external_body = []   # (file, fn, discharged_by)
        self.verified_fns = []    # (file, fn)
        self.records = []         # contracted fns: dict(rel, scopes, fn_rx, fname, external, discharged_by)

    def add(self, k, d=1):
        self.n[k] = self.n.get(k, 0) + d


def norm_N1(text, stats):
    """b"abc" -> &[0x61u8,..];  *b"abc" -> [0x61u8,..]   (Verus models only the length of byte-string literals)"""
    mask = None

    def r(m):
        body = m.group(2)
        if '\\' in body:
            raise Unsupported('escape in byte string literal %r' % m.group(0))
        stats.add('N1')
        arr = lit_bytes(body.encode())
        return arr if m.group(1) == '*' else '&' + arr
    # only match literals that are code (not inside comments): do it line-wise, skipping comment tails
    out = []
    for line in text.split('\n'):
        code, sep, tail = line, '', ''
        idx = _comment_start(line)
        if idx is not None:
            code, tail = line[:idx], line[idx:]
        code = re.sub(r'(\*?)\bb"([^"]*)"', r, code)
        out.append(code + tail)
    return '\n'.join(out)


def _comment_start(line):
    in_str = False
    i = 0
    while i < len(line) - 1:
        c = line[i]
        if in_str:
            if c == '\\':
                i += 2
                continue
            if c == '"':
                in_str = False
        else:
            if c == '"':
                in_str = True
            elif c == '/' and line[i + 1] == '/':
                return i
        i += 1
    return None


def norm_N2(text, stats):
    """|_| HpkeError::X            ->  |_e| -> (o: HpkeError) ensures o == HpkeError::X { HpkeError::X }
       |_| HpkeError::X(a, b)      ->  same with the constructor arguments (pure expressions) repeated
       |_| { HpkeError::X(..) }    ->  same (block body consisting of one constructor expression)
       any other `|_|` closure only gets its parameter named (`|_e|`): Verus rejects `_` patterns"""
    cons = r'(HpkeError::\w+(?:\((?:[^()]|\([^()]*\))*\))?)'

    def r(m):
        stats.add('N2')
        p = re.sub(r'\s+', ' ', m.group(1) or m.group(2)).strip()
        return '|_e| -> (o: HpkeError) ensures o == %s { %s }' % (p, p)
    text = re.sub(r'\|_\|\s*(?:\{\s*' + cons + r'\s*\}|' + cons + r')', r, text)
    text, n = re.subn(r'\|_\|', '|_e|', text)
    stats.add('N2', n)
    return text


class FileSplice:
    def __init__(self, rel, text, stats):
        self.rel = rel
        self.s = text
        self.stats = stats
        self._mask = None

    @property
    def mask(self):
        if self._mask is None or len(self._mask) != len(self.s):
            self._mask = code_mask(self.s)
        return self._mask

    def _set(self, s):
        self.s = s
        self._mask = None

    def _err(self, e, what):
        raise LostAnchor('%s: %s (%s)' % (self.rel, e, what))

    # ---- ops -------------------------------------------------------------------------------
    def use(self, scopes=()):
        """add the ghost imports at the top of the file (after inner doc comments) or of a scope"""
        if scopes:
            lo, hi = scope_range(self.s, self.mask, scopes)
            self._set(self.s[:lo] + '\n' + USE + self.s[lo:])
            return
        lines = self.s.split('\n')
        i = 0
        while i < len(lines) and (lines[i].startswith('//!') or lines[i].startswith('#![') or not lines[i].strip()):
            i += 1
        lines.insert(i, USE)
        self._set('\n'.join(lines))

    def locate(self, scopes, header_rx):
        try:
            lo, hi = scope_range(self.s, self.mask, scopes)
            return find_item(self.s, self.mask, header_rx, lo, hi)
        except LostAnchor as e:
            self._err(e, '%s > %s' % (' > '.join(scopes), header_rx))

    def wrap(self, scopes, header_rx, normalize=True, upto_rx=None):
        """wrap one item (or the run of items from header_rx up to and including upto_rx) in verus!{ }"""
        it = self.locate(scopes, header_rx)
        start, end = it.start, it.end
        if upto_rx:
            it2 = self.locate(scopes, upto_rx)
            end = it2.end
        body = self.s[start:end]
        if normalize:
            body = norm_N2(norm_N1(body, self.stats), self.stats)
        self.stats.add('wrapped_items')
        self._set(self.s[:start] + 'verus!{\n' + body + '\n} // verus!\n' + self.s[end:])

    def contract(self, scopes, fn_rx, ret=None, clauses='', attrs=(), mode=None, discharged_by=None):
        """insert a contract header into a fn item without touching its body.
        ret: name for the return value (`-> T` becomes `-> (ret: T)`); clauses: requires/ensures text;
        attrs: attribute lines placed before the item (e.g. #[verifier::external_body])."""
        it = self.locate(scopes, fn_rx)
        s, mask = self.s, self.mask
        # parameter list
        fm = find_code(s, mask, r'\bfn\s+(\w+)', it.header, it.body_open)
        p_open = next_code_char(s, mask, '(', fm.end(), it.body_open)
        p_close = match_close(s, mask, p_open)
        sig_tail = s[p_close + 1:it.body_open]
        new_tail = sig_tail
        m = re.match(r'(\s*)->\s*', sig_tail)
        where = re.search(r'\bwhere\b', sig_tail)
        if ret:
            if not m:
                raise Unsupported('%s: %s has no return type to name' % (self.rel, fn_rx))
            rt_end = where.start() if where else len(sig_tail)
            rt = sig_tail[m.end():rt_end].rstrip()
            new_tail = '%s-> (%s: %s)%s' % (m.group(1), ret, rt, (' ' + sig_tail[rt_end:].rstrip()) if where else '')
        new_tail = new_tail.rstrip()
        if where and not new_tail.rstrip().endswith(','):
            new_tail += ','
        if clauses.strip():
            new_tail += '\n' + clauses.rstrip() + '\n'
        elif it.has_body:
            new_tail += ' '
        a = ''.join(x + '\n' for x in attrs)
        fname = fm.group(1)
        if any('external_body' in x for x in attrs):
            self.stats.add('external_body')
            self.stats.external_body.append((self.rel, ' > '.join(list(scopes) + [fname]), discharged_by or 'TRUSTED'))
        else:
            self.stats.verified_fns.append((self.rel, ' > '.join(list(scopes) + [fname])))
        if clauses.strip():
            self.stats.add('contracts')
        self.stats.records.append({'rel': self.rel, 'scopes': list(scopes), 'fn_rx': fn_rx, 'fname': fname,
                                   'external': any('external_body' in x for x in attrs), 'discharged_by': discharged_by})
        hl = s.rfind('\n', 0, it.header) + 1
        self._set(s[:hl] + a + s[hl:p_close + 1] + new_tail + s[it.body_open:])

    def attr(self, scopes, header_rx, attrs):
        it = self.locate(scopes, header_rx)
        hl = self.s.rfind('\n', 0, it.header) + 1
        self._set(self.s[:hl] + ''.join(x + '\n' for x in attrs) + self.s[hl:])

    def insert_in(self, scopes, header_rx, text):
        """insert ghost items at the beginning of the body of an impl/trait/mod item"""
        it = self.locate(scopes, header_rx)
        self.stats.add('ghost_items')
        self._set(self.s[:it.body_open + 1] + '\n' + text.rstrip() + '\n' + self.s[it.body_open + 1:])

    def insert_after(self, scopes, header_rx, text):
        it = self.locate(scopes, header_rx)
        self.stats.add('ghost_items')
        self._set(self.s[:it.end] + '\n' + text.rstrip() + '\n' + self.s[it.end:])

    def insert_before(self, scopes, header_rx, text):
        it = self.locate(scopes, header_rx)
        self.stats.add('ghost_items')
        self._set(self.s[:it.start] + text.rstrip() + '\n' + self.s[it.start:])

    def append(self, text, scopes=()):
        self.stats.add('ghost_items')
        if scopes:
            lo, hi = scope_range(self.s, self.mask, scopes)
            self._set(self.s[:hi] + '\n' + text + '\n' + self.s[hi:])
        else:
            self._set(self.s + '\n' + text + '\n')

    def const_bytes(self, scopes, name):
        """N3: const NAME: &[u8] = b"..";  ->  exec const NAME: &'static [u8] ensures NAME@ == seq![..] { &[..] }"""
        it = self.locate(scopes, r'(pub(\([a-z]+\))?\s+)?const\s+%s\s*:' % name)
        txt = self.s[it.header:it.end]
        m = re.match(r'((?:pub(?:\([a-z]+\))?\s+)?)const\s+(\w+)\s*:\s*&\s*\[u8\]\s*=\s*b"([^"\\]*)"\s*;', txt)
        if not m:
            raise Unsupported('%s: const %s is not a plain byte-string const' % (self.rel, name))
        bs = m.group(3).encode()
        new = ("verus!{\n%sexec const %s: &'static [u8]\n  ensures %s@ == %s\n{ &%s }\n} // verus!\n"
               % (m.group(1), name, name, seq_bytes(bs), lit_bytes(bs)))
        self.stats.add('N3')
        self._set(self.s[:it.header] + new + self.s[it.end:])

    def hoist(self, scopes, fn_rx, new_name, self_ty, trait=None, generics='', where='', vis='pub(crate) '):
        """N7: move the body of a trait-impl method verbatim into a free function placed right after the
        impl item (Verus' trait-cycle check rejects impl methods that instantiate generics with the type
        being implemented).  Textual substitutions: `Self::` -> `<self_ty as trait>::`, `Self` -> self_ty,
        `self` -> `this`.  The impl method becomes a one-line delegation."""
        impl_scopes, impl_rx = list(scopes[:-1]), scopes[-1]
        it = self.locate(scopes, fn_rx)
        s, mask = self.s, self.mask
        fm = find_code(s, mask, r'\bfn\s+(\w+)', it.header, it.body_open)
        p_open = next_code_char(s, mask, '(', fm.end(), it.body_open)
        p_close = match_close(s, mask, p_open)
        if not it.has_body:
            raise Unsupported('%s: cannot hoist a declaration %s' % (self.rel, fn_rx))
        # generics of the method itself
        own_gen = s[fm.end():p_open].strip()
        params = s[p_open + 1:p_close]
        tail = s[p_close + 1:it.body_open]
        body = s[it.body_open:it.end]

        def sub_self(txt):
            m = code_mask(txt)
            out, i = [], 0
            rx = re.compile(r'\bSelf(::)?|\bself\b')
            for mm in rx.finditer(txt):
                if not m[mm.start()]:
                    continue
                out.append(txt[i:mm.start()])
                tok = mm.group(0)
                if tok == 'Self::':
                    out.append(('<%s as %s>::' % (self_ty, trait)) if trait else (self_ty + '::'))
                elif tok == 'Self':
                    out.append(self_ty)
                else:
                    out.append('this')
                i = mm.end()
            out.append(txt[i:])
            return ''.join(out)
        # receiver
        pm = re.match(r'\s*(&\s*mut\s+self|&\s*self|self)\s*,?', params)
        args = []
        new_params = params
        if pm:
            recv = re.sub(r'\s+', ' ', pm.group(1))
            ty = {'&self': '&' + self_ty, '& self': '&' + self_ty, '&mut self': '&mut ' + self_ty, 'self': self_ty}[recv]
            new_params = 'this: %s, ' % ty + params[pm.end():]
            args.append('self')
        # argument names of the remaining parameters
        rest = params[pm.end():] if pm else params
        depth = 0; cur = ''
        parts = []
        for ch in rest:
            if ch in '<([':
                depth += 1
            elif ch in '>)]':
                depth -= 1
            if ch == ',' and depth == 0:
                parts.append(cur); cur = ''
            else:
                cur += ch
        if cur.strip():
            parts.append(cur)
        for prt in parts:
            prt = re.sub(r'//[^\n]*', '', prt).strip()
            if not prt:
                continue
            nm = re.match(r'(?:mut\s+)?(\w+)\s*:', prt)
            if not nm:
                raise Unsupported('%s: cannot parse parameter %r of %s' % (self.rel, prt, fn_rx))
            args.append(nm.group(1))
        g = generics.strip('<>')
        og = own_gen.strip('<>')
        allg = ', '.join(x for x in (g, og) if x)
        gen_txt = '<%s>' % allg if allg else ''
        tail_n = sub_self(tail).rstrip()
        if where:
            if re.search(r'\bwhere\b', tail_n):
                tail_n = tail_n.rstrip().rstrip(',') + ', ' + where
            else:
                tail_n += ' where ' + where
        free = ('\n/// [verif N7] body of `%s` hoisted verbatim out of its trait impl\n%sfn %s%s(%s)%s %s\n'
                % (fm.group(1), vis, new_name, gen_txt, sub_self(new_params), tail_n, sub_self(body)))
        turbofish = ''
        call_gen = [x.split(':')[0].strip() for x in allg.split(',')] if allg else []
        call_gen = [x for x in call_gen if x and not x.startswith("'")]
        if call_gen:
            turbofish = '::<%s>' % ', '.join(call_gen)
        deleg = '{ %s%s(%s) }' % (new_name, turbofish, ', '.join(args))
        self._set(s[:it.body_open] + deleg + s[it.end:])
        # place the free fn after the enclosing impl item
        imp = self.locate(impl_scopes, impl_rx)
        self._set(self.s[:imp.end] + '\n' + free + self.s[imp.end:])
        self.stats.add('N7')

    def wrap_simple_consts(self):
        """wrap every top-level `const NAME: <integer type> = <literal expr>;` that is not yet inside verus!{} so that
        constants added by a change are known to the verifier (a plain integer const has no proof obligations)"""
        out = []
        depth_verus = 0
        for line in self.s.split('\n'):
            st = line.strip()
            if st.startswith('verus!{'):
                depth_verus += 1
            if st.startswith('} // verus!'):
                depth_verus = max(0, depth_verus - 1)
            # (integer literals, other constants by name or path, + * ( ) and `as` casts: no calls, no generics)
            m = (re.match(r'^(pub(\([a-z]+\))?\s+)?const\s+\w+\s*:\s*(usize|u8|u16|u32|u64)\s*=\s*[\w: +*()]+;\s*(//.*)?$', line)
                 or re.match(r'^(pub(\([a-z]+\))?\s+)?const\s+\w+\s*:\s*\[u8;\s*\d+\]\s*=\s*\[[0-9a-fA-Fxu_]+;\s*\d+\];\s*(//.*)?$', line))
            ma = re.match(r'^((?:pub(?:\([a-z]+\))?\s+)?)const\s+(\w+)\s*:\s*\[u8;\s*(\d+)\]\s*=\s*\[([0-9a-fA-Fxu_]+);\s*(\d+)\];', line)
            if ma and depth_verus == 0 and not line.startswith(' '):
                vis, name, n, val, n2 = ma.groups()
                out.append("verus!{ %sexec const %s: [u8; %s] ensures %s@.len() == %s, forall|i: int| 0 <= i < %s ==> %s@[i] == %s { [%s; %s] } }"
                           % (vis, name, n, name, n, n, name, val, val, n2))
                self.stats.add('wrapped_items')
            elif m and depth_verus == 0 and not line.startswith(' '):
                out.append('verus!{ ' + re.sub(r'\s*//.*$', '', line) + ' }')
                self.stats.add('wrapped_items')
            else:
                out.append(line)
        self._set('\n'.join(out))

    def loop_invariant(self, scopes, fn_rx, loop_rx, inv_text):
        """N5: insert `invariant ...` between a loop header and its `{` (ghost only)"""
        it = self.locate(scopes, fn_rx)
        m = find_code(self.s, self.mask, loop_rx, it.body_open, it.end)
        b = next_code_char(self.s, self.mask, '{', m.end(), it.end)
        self.stats.add('N5')
        self._set(self.s[:b] + '\n' + inv_text.rstrip() + '\n' + self.s[b:])

    def replace_exact(self, old, new, count=1, tag=None):
        """exact-text rewrite used only for the documented normalisation N6"""
        if self.s.count(old) != count:
            raise LostAnchor('%s: expected %d occurrence(s) of %r' % (self.rel, count, old[:60]))
        if tag:
            self.stats.add(tag, count)
        self._set(self.s.replace(old, new))


def _exec_fns_in_verus(s, mask):
    """(name, header_pos, body_open, body_close) of every exec fn item lying inside a verus!{} region"""
    out = []
    regions = []
    for m in re.finditer(r'\bverus!\s*\{', s):
        if not mask[m.start()]:
            continue
        o = m.end() - 1
        try:
            regions.append((o, match_close(s, mask, o)))
        except LostAnchor:
            pass
    for m in re.finditer(r'\bfn\s+(\w+)', s):
        if not mask[m.start()] or not any(a < m.start() < b for a, b in regions):
            continue
        pre = s[max(0, m.start() - 40):m.start()]
        if re.search(r'\b(spec|proof)\s+(\(checked\)\s+)?$', pre) or re.search(r'\baxiom\s+$', pre):
            continue
        try:
            j = next_code_char(s, mask, '{;', m.end(), len(s))
        except LostAnchor:
            continue
        if s[j] == ';':
            continue
        out.append((m.group(1), m.start(), j, match_close(s, mask, j)))
    return out


def _plain_loops(s, mask, lo, hi):
    """loops in s[lo:hi] that carry no `invariant` (Verus havocs whatever such a loop modifies: a failed
    obligation after it says nothing about the code)"""
    n = 0
    for m in re.finditer(r'\bfor\b[^;{}]*?\bin\b|\bwhile\b|\bloop\b', s[lo:hi]):
        a = lo + m.start()
        if not mask[a]:
            continue
        try:
            j = next_code_char(s, mask, '{', lo + m.end(), hi)
        except LostAnchor:
            continue
        if not re.search(r'\binvariant\b', s[a:j]):
            n += 1
    return n


def index_file(F, records):
    """after all ops: line ranges of every contracted fn and the property tags of its contract header;
    plus, per fn, what makes a failed obligation in it INCONCLUSIVE: loops without invariant and calls of
    crate functions that are verified without any contract (helpers the contracts do not know)"""
    out = []
    s = F.s
    mask = F.mask
    def line_of(i):
        return s.count('\n', 0, i) + 1
    located = []
    for r in records:
        if r['rel'] != F.rel:
            continue
        it = F.locate(r['scopes'], r['fn_rx'])
        located.append((r, it))
    allfns = _exec_fns_in_verus(s, mask)
    known = set(it.header for _, it in located)
    def is_known(pos):
        return any(it.header <= pos <= it.body_open for _, it in located)
    # (`fn default` of the wrapped `impl Default` blocks carries its ensures in the wrapper text, not via contract())
    unknown = sorted(set(name for name, pos, _, _ in allfns if not is_known(pos)) - {'default'})
    for r, it in located:
        hdr = s[it.header:it.body_open]
        tags = []
        for m in re.finditer(r'/\*@([^*]*)\*/', hdr):
            tags.append({'line': line_of(it.header + m.start()), 'props': m.group(1).split()})
        loops, calls = 0, []
        if it.has_body:
            loops = _plain_loops(s, mask, it.body_open, it.end)
            body = ''.join(ch if mask[k + it.body_open] else ' ' for k, ch in enumerate(s[it.body_open:it.end]))
            calls = [u for u in unknown if re.search(r'\b%s\s*(::<[^;{}]*?>)?\s*\(' % re.escape(u), body)]
        out.append(dict(r, start=line_of(it.header), body=line_of(it.body_open), end=line_of(it.end - 1),
                        has_body=it.has_body, tags=tags, plain_loops=loops, calls_uncontracted=calls))
    return out
