"""rustc trait-solver obligations (C18 Send/Sync; crate-level `forbid(unsafe_code)`): a scratch copy of /repo
gets the obligation file as an integration test and is type-checked offline with `cargo check --tests`."""
import os, re, shutil, subprocess, tempfile, time, hashlib, json
V = os.path.dirname(os.path.dirname(os.path.abspath(__file__)))
REPO = os.environ.get('VERIF_REPO', '/repo')
CACHE = os.path.join(V, '.cache')


def run(pid):
    if pid != 'C18':
        return []
    t0 = time.time()
    scratch = tempfile.mkdtemp(prefix='hpke_rustc_')
    try:
        for f in ('Cargo.toml', 'Cargo.lock'):
            shutil.copy(os.path.join(REPO, f), scratch)
        for d in ('src', 'benches', 'examples'):
            if os.path.exists(os.path.join(REPO, d)):
                shutil.copytree(os.path.join(REPO, d), os.path.join(scratch, d))
        os.makedirs(os.path.join(scratch, 'tests'), exist_ok=True)
        shutil.copy(os.path.join(V, 'rustc_obligations', 'send_sync.rs'), os.path.join(scratch, 'tests', 'verif_send_sync.rs'))
        # no unsafe anywhere in the crate: forbid(unsafe_code) at the crate root of the scratch copy
        lib = os.path.join(scratch, 'src', 'lib.rs')
        txt = open(lib).read()
        open(lib, 'w').write('#![forbid(unsafe_code)]\n' + txt)
        env = dict(os.environ, CARGO_NET_OFFLINE='true', CARGO_TARGET_DIR=os.path.join(CACHE, 'rustc-target'))
        p = subprocess.run(['cargo', 'check', '--offline', '--features', 'p384,p521', '--test', 'verif_send_sync'],
                           cwd=scratch, capture_output=True, text=True, env=env, timeout=900)
        out = p.stdout + p.stderr
        res = []
        ok = p.returncode == 0
        detail = None
        kind_violation = False
        if not ok:
            errs = [l for l in out.splitlines() if l.startswith('error')]
            detail = '; '.join(errs[:4])
            if re.search(r'cannot be (sent|shared) between threads safely|E0277', out) and 'verif_send_sync' in out:
                kind_violation = True
            elif re.search(r'unsafe_code|usage of an `unsafe`|declaration of an `unsafe`', out):
                kind_violation = True
        res.append({'name': 'rustc: Send + Sync for every public value type x suite; forbid(unsafe_code) on the crate',
                    'ok': ok, 'undecided': (not ok and not kind_violation), 'detail': detail,
                    'log': out[-3000:].replace(scratch, '<scratch>') if not ok else None, 'time_s': round(time.time() - t0, 1)})
        return res
    finally:
        shutil.rmtree(scratch, ignore_errors=True)
