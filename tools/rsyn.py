"""Minimal lexical helpers for Rust source text: comment/string aware bracket matching and
item location.  Used by the splicer; never evaluates or re-types code."""
import re


class LostAnchor(Exception):
    pass


def code_mask(src):
    """mask[i] is True iff src[i] is code (not inside a comment, string, byte string or char literal)."""
    n = len(src)
    mask = [True] * n
    i = 0
    while i < n:
        c = src[i]
        if c == '/' and i + 1 < n and src[i + 1] == '/':
            j = src.find('\n', i)
            j = n if j < 0 else j
            for k in range(i, j):
                mask[k] = False
            i = j
        elif c == '/' and i + 1 < n and src[i + 1] == '*':
            depth, j = 1, i + 2
            while j < n and depth:
                if src.startswith('/*', j):
                    depth += 1; j += 2
                elif src.startswith('*/', j):
                    depth -= 1; j += 2
                else:
                    j += 1
            for k in range(i, j):
                mask[k] = False
            i = j
        elif c == '"' or (c in 'br' and re.match(r'b?r?#*"', src[i:i + 8]) and (i == 0 or not (src[i - 1].isalnum() or src[i - 1] == '_'))):
            m = re.match(r'(b?)(r?)(#*)"', src[i:i + 8])
            raw, hashes = m.group(2) == 'r', m.group(3)
            j = i + m.end()
            if raw:
                end = src.find('"' + hashes, j)
                j = n if end < 0 else end + 1 + len(hashes)
            else:
                while j < n and src[j] != '"':
                    j += 2 if src[j] == '\\' else 1
                j += 1
            for k in range(i, min(j, n)):
                mask[k] = False
            i = j
        elif c == "'":
            # char literal vs lifetime
            m = re.match(r"'(\\.[^']*|[^\\'])'", src[i:i + 12])
            if m:
                for k in range(i, i + m.end()):
                    mask[k] = False
                i += m.end()
            else:
                i += 1
        else:
            i += 1
    return mask


OPEN = {'{': '}', '(': ')', '[': ']'}


def match_close(src, mask, i):
    """index of the bracket closing the one opened at src[i]"""
    o = src[i]
    c = OPEN[o]
    depth = 0
    for j in range(i, len(src)):
        if not mask[j]:
            continue
        if src[j] == o:
            depth += 1
        elif src[j] == c:
            depth -= 1
            if depth == 0:
                return j
    raise LostAnchor('unbalanced %r at %d' % (o, i))


def find_code(src, mask, pattern, lo, hi, what=None):
    """first regex match in [lo,hi) whose start is code"""
    rx = re.compile(pattern, re.M)
    pos = lo
    while True:
        m = rx.search(src, pos, hi)
        if not m:
            raise LostAnchor('anchor not found: %s' % (what or pattern))
        if mask[m.start()]:
            return m
        pos = m.start() + 1


def next_code_char(src, mask, chars, lo, hi):
    """index of first code char in `chars` at bracket depth 0 (w.r.t. () [] and <> is ignored)"""
    depth = 0
    j = lo
    while j < hi:
        if mask[j]:
            ch = src[j]
            if depth == 0 and ch in chars:
                return j
            if ch in '([':
                depth += 1
            elif ch in ')]':
                depth -= 1
        j += 1
    raise LostAnchor('no %r after %d' % (chars, lo))


def item_start(src, header_start):
    """walk back from the start of the header line over contiguous attribute / doc-comment lines"""
    ls = src.rfind('\n', 0, header_start) + 1
    start = ls
    while start > 0:
        prev_end = start - 1
        prev_start = src.rfind('\n', 0, prev_end) + 1
        line = src[prev_start:prev_end].strip()
        if line.startswith('///') or line.startswith('#['):
            start = prev_start
            continue
        if line.endswith(')]') or line.endswith(']'):
            # tail of a multi-line attribute: walk up to its '#[' line
            k = prev_start
            ok = False
            for _ in range(12):
                l2 = src[k:src.find('\n', k)].strip()
                if l2.startswith('#['):
                    ok = True
                    break
                if k == 0:
                    break
                k = src.rfind('\n', 0, k - 1) + 1
            if ok:
                start = k
                continue
        break
    return start


class Item:
    __slots__ = ('start', 'header', 'hend', 'body_open', 'end', 'has_body')

    def __repr__(self):
        return 'Item(%d,%d,%d,%d)' % (self.start, self.header, self.body_open, self.end)


def find_item(src, mask, header_rx, lo=0, hi=None):
    """Locate an item whose header matches header_rx inside [lo,hi).  The item extends from its
    first attribute/doc line to the matching close brace of its body, or to the terminating ';'."""
    hi = len(src) if hi is None else hi
    m = find_code(src, mask, header_rx, lo, hi)
    it = Item()
    it.header = m.start()
    it.hend = m.end()
    it.start = max(item_start(src, m.start()), lo)
    j = next_code_char(src, mask, '{;', m.end(), hi)
    # `[0u8; 2]`-like constructs in signatures are inside [] and skipped by next_code_char
    if src[j] == '{':
        it.has_body = True
        it.body_open = j
        it.end = match_close(src, mask, j) + 1
    else:
        it.has_body = False
        it.body_open = j
        it.end = j + 1
    return it


def scope_range(src, mask, scopes, lo=0, hi=None):
    """descend through a list of header regexes; returns (lo,hi) of the innermost body"""
    hi = len(src) if hi is None else hi
    for rx in scopes:
        it = find_item(src, mask, rx, lo, hi)
        if not it.has_body:
            raise LostAnchor('scope without body: %s' % rx)
        lo, hi = it.body_open + 1, it.end - 1
    return lo, hi
