#!/bin/bash
# confirm_seed.sh <seed-dir> : independently confirm a seeded change in a fresh scratch worktree:
#   patch alone -> builds (+p384,p521) and the existing suite passes; patch+demo -> demo FAILS; demo alone -> demo PASSES
set -u
D=$1
ID=$(basename $D)
WT=/tmp/confirm_$ID
CMD=$(python3 -c "import json;print(json.load(open('$D/meta.json'))['demo_cmd'])")
git -C /repo worktree add -q --detach $WT HEAD || exit 3
cd $WT
export CARGO_TARGET_DIR=/tmp/confirm_target
res="$ID"
git apply $D/patch.diff || { echo "$ID patch-does-not-apply"; cd /; git -C /repo worktree remove --force $WT; exit 3; }
cargo build --offline -q 2>/dev/null && res="$res build=ok" || res="$res build=FAIL"
cargo build --offline -q --features p384,p521 2>/dev/null && res="$res build_all=ok" || res="$res build_all=FAIL"
out=$(cargo test --offline 2>&1); echo "$out" | grep -q "test result: ok. 35 passed" && res="$res suite=35pass" || res="$res suite=FAIL"
git apply $D/demo.patch || res="$res demo-does-not-apply"
out=$($CMD 2>&1); echo "$out" | grep -q "test result: FAILED" && res="$res demo_with_patch=fails(as required)" || res="$res demo_with_patch=DOES-NOT-FAIL"
git checkout -q -- . ; git clean -fdq
git apply $D/demo.patch
out=$($CMD 2>&1); echo "$out" | grep -q "test result: ok" && res="$res demo_clean=passes" || res="$res demo_clean=FAIL"
git checkout -q -- . ; git clean -fdq
cd /; git -C /repo worktree remove --force $WT
echo "$res"
