"""Kani back end: runs the property's harnesses on the spliced scratch copy (stub until harnesses exist)."""
import os, sys

# property -> list of dict(name, tier, bound(None=complete), timeout)
HARNESSES = {}


def run_for_property(pid, tier, seed):
    hs = [h for h in HARNESSES.get(pid, []) if tier == 'thorough' or h.get('tier', 'quick') == 'quick']
    if not hs:
        return {'status': 'ok', 'harnesses': [], 'counterexamples': {}}
    raise NotImplementedError
