"""Kani back end.  Builds a scratch copy of /repo (unchanged sources) with the harness fragments of
/verif/kani/*.rs appended to the corresponding src files (in-crate child modules, so they can see
private items), and runs `cargo kani` per harness.

Harness kinds:
  complete : loop-free or constant-bounded over the FULL input domain with unwinding assertions on -> a proof
  bounded  : stated bound on an input length -> labelled bounded, never counted as proved
"""
import hashlib, json, os, re, shutil, subprocess, sys, tempfile, time
from concurrent.futures import ThreadPoolExecutor
sys.path.insert(0, os.path.dirname(os.path.abspath(__file__)))
V = os.path.dirname(os.path.dirname(os.path.abspath(__file__)))
REPO = os.environ.get('VERIF_REPO', '/repo')
CACHE = os.path.join(V, '.cache')
KTARGET = os.path.join(CACHE, 'kani-target')


class PrivateTarget:
    """A cargo target directory private to this process.

    cargo's build lock covers the compilation only; kani-driver reads the goto binaries afterwards, and the test binary of a
    playback runs after the lock is released.  Two checks running at the same time on DIFFERENT source trees (the unchanged tree
    and a changed one, or two changed ones) must therefore not share a target directory.  The dependency build is shared through a
    base directory that is written only while holding an exclusive lock (first use), and copied (under a shared lock) otherwise."""

    def __init__(self, base_name):
        self.base = os.path.join(CACHE, base_name)
        self.lock = os.path.join(CACHE, base_name + '.lock')
        self.path = None
        self.using_base = False
        self.fd = None

    def __enter__(self):
        import fcntl, glob, uuid
        os.makedirs(CACHE, exist_ok=True)
        # stale private copies of processes that no longer exist
        for d in glob.glob(self.base + '-p*-*'):
            m = re.search(r'-p(\d+)-', os.path.basename(d))
            if m and not os.path.exists('/proc/%s' % m.group(1)):
                shutil.rmtree(d, ignore_errors=True)
        self.fd = open(self.lock, 'w')
        ready = os.path.join(self.base, '.base-ready')
        fcntl.flock(self.fd, fcntl.LOCK_SH)
        if os.path.exists(ready):
            self.path = '%s-p%d-%s' % (self.base, os.getpid(), uuid.uuid4().hex[:8])
            # the crate's own artefacts are rebuilt anyway (and are the bulk of the directory): copy the dependency build only
            def ignore(d, names):
                return [n for n in names if n.startswith('hpke') or n.startswith('libhpke')]
            shutil.copytree(self.base, self.path, ignore=ignore, symlinks=True)
            fcntl.flock(self.fd, fcntl.LOCK_UN)
            return self
        # first use: build into the base itself, alone
        fcntl.flock(self.fd, fcntl.LOCK_UN)
        fcntl.flock(self.fd, fcntl.LOCK_EX)
        if os.path.exists(ready):
            fcntl.flock(self.fd, fcntl.LOCK_UN)
            self.fd.close()
            return self.__enter__()
        self.path = self.base
        self.using_base = True
        return self

    def __exit__(self, *a):
        import fcntl
        try:
            if self.using_base:
                os.makedirs(self.base, exist_ok=True)
                open(os.path.join(self.base, '.base-ready'), 'w').write('1')
            elif self.path:
                shutil.rmtree(self.path, ignore_errors=True)
        finally:
            try:
                fcntl.flock(self.fd, fcntl.LOCK_UN)
                self.fd.close()
            except Exception:
                pass
        return False

# fragment file -> source file it is appended to
FRAGMENTS = {
    'util.rs': 'util.rs',
    'aead.rs': 'aead.rs',
    'x25519.rs': 'dhkex/x25519.rs',
    'nistp.rs': 'dhkex/ecdh_nistp.rs',
    'kem.rs': 'kem.rs',
    'setup.rs': 'setup.rs',
    'lib.rs': 'lib.rs',
    'op_mode.rs': 'op_mode.rs',
}

# Kani function contracts spliced onto REAL functions of the scratch copy (the modular route of Kani: the contract is
# proved once by a `proof_for_contract` harness and then used instead of the body via `stub_verified`)
KANI_CONTRACTS = [
    ('aead.rs', r'^fn increment_seq\(seq: &Seq\) -> Option<Seq> \{',
     '#[cfg_attr(kani, kani::ensures(|r: &Option<Seq>| match r { None => seq.0 == u64::MAX, Some(s) => seq.0 != u64::MAX && s.0 == seq.0 + 1 }))]\n'),
]


def H(name, props, tier='quick', bound=None, timeout=600, features='', should_panic=False, extra=()):
    # harnesses named *_panics are #[kani::should_panic] (passes when SOME path panics) and end in the sentinel
    # `kani::cover!(true, "VERIF_RETURNED")`, which must be unreachable: then EVERY path panics
    return {'name': name, 'props': props, 'tier': tier, 'bound': bound, 'timeout': timeout, 'features': features, 'extra': list(extra),
            'must_not_return': name.endswith('_panics')}

# name must be unique; `props` = properties whose check runs the harness
ALL = [
    H('write_u16_be_full', ['C02', 'C04']),
    H('write_u64_be_full', ['C02', 'C04', 'C05']),
    H('write_u64_be_wrong_len_panics', ['C13'], tier='thorough'),
    H('suite_ids_table_x25519', ['C02', 'C07', 'C18']),
    H('kem_ids_table', ['C02', 'C03', 'C12'], features='p384,p521'),
    H('suite_ids_table_p256', ['C02', 'C07']),
    H('suite_ids_table_p384', ['C02', 'C07'], tier='thorough', features='p384,p521'),
    H('suite_ids_table_p521', ['C02', 'C07'], tier='thorough', features='p384,p521'),
    H('kdf_ids_table', ['C02', 'C07', 'C11']),
    H('increment_seq_full', ['C04', 'C05']),
    H('increment_seq_contract', ['C04', 'C05']),
    H('seq_default_is_zero', ['C04', 'C01']),
    H('mix_nonce_full_aes128', ['C04', 'C02', 'C05']),
    H('mix_nonce_full_aes256', ['C04'], tier='thorough'),
    H('mix_nonce_full_chacha', ['C04'], tier='thorough'),
    H('seal_state_machine_model', ['C04', 'C06'], tier='thorough'),
    H('open_state_machine_model', ['C05', 'C06'], tier='thorough'),
    H('seal_alloc_bounded', ['C14', 'C01', 'C13'], bound='plaintext length <= 4, model AEAD'),
    H('seal_forms_agree_bounded', ['C14'], bound='plaintext length <= 4, model AEAD'),
    H('open_forms_agree_bounded', ['C14'], bound='ciphertext||tag length 16..=20, model AEAD'),
    H('write_exact_tag_copies', ['C12']),
    H('aead_tag_from_bytes_full', ['C12', 'C06', 'C13']),
    H('open_alloc_model_bounded', ['C05', 'C06', 'C14', 'C13'], tier='thorough', bound='ciphertext length <= 20, model AEAD'),
    H('psk_bundle_and_modes_bounded', ['C15'], tier='thorough', bound='psk, psk_id length <= 3'),
    H('write_exact_tag_wrong_len_panics', ['C12']),
    H('write_exact_tag_exportonly_wrong_len_panics', ['C12']),
    H('export_limit_and_history', ['C11', 'C18', 'C13']),
    H('export_only_seal_panics', ['C11'], tier='thorough', timeout=1500),
    H('export_only_open_panics', ['C11'], tier='thorough', timeout=1500),
    H('drop_wipes_key_aes128', ['C16']),
    H('drop_wipes_key_aes256', ['C16'], tier='thorough'),
    H('drop_wipes_key_chacha', ['C16'], tier='thorough'),
    H('drop_wipes_nonce_aes128', ['C16']),
    H('drop_wipes_nonce_aes256', ['C16'], tier='thorough'),
    H('drop_wipes_nonce_chacha', ['C16'], tier='thorough'),
    H('drop_wipes_ctx_fields', ['C16']),
    H('drop_wipes_nonce_exportonly', ['C16']),
    H('drop_wipes_shared_secret_x25519', ['C16']),
    H('drop_wipes_shared_secret_p521', ['C16'], features='p384,p521'),
    H('drop_wipes_shared_secret_p384', ['C16'], tier='thorough', features='p384,p521'),
    H('drop_wipes_exporter_sha256', ['C16']),
    H('drop_wipes_exporter_sha384', ['C16'], tier='thorough'),
    H('drop_wipes_exporter_sha512', ['C16'], tier='thorough'),
    H('single_shot_open_equiv_model', ['C14', 'C06', 'C18'], tier='thorough', timeout=1500),
    H('single_shot_seal_equiv_model', ['C14'], tier='thorough', timeout=1500),
    H('gen_keypair_depends_only_on_rng', ['C18', 'C03', 'C02']),
    H('aead_ids_and_sizes_table', ['C02', 'C12']),
    H('x25519_dh_zero_check', ['C10', 'C03']),
    H('write_exact_x25519_copies', ['C12']),
    H('x25519_from_bytes_full', ['C12', 'C13', 'C10']),
    H('x25519_decap_zero_dh_rejected', ['C10', 'C13'], timeout=1500),
    H('x25519_encap_zero_dh_rejected', ['C10', 'C13'], timeout=1500),
    H('x25519_dhkem_kdf_inputs', ['C03', 'C07', 'C08', 'C02'], tier='thorough', timeout=1500),
    H('write_exact_x25519_wrong_len_panics', ['C12']),
    H('nist_sk_from_bytes_p256', ['C09', 'C12', 'C13'], timeout=1500),
    H('nist_sk_from_bytes_p384', ['C09', 'C12'], features='p384,p521', timeout=900),
    H('nist_sk_from_bytes_p521', ['C09'], features='p384,p521', timeout=900),
    H('nist_derive_keypair_rejection_p256', ['C02', 'C03'], timeout=1500),
    H('nist_derive_keypair_rejection_p384', ['C02', 'C03'], tier='thorough', features='p384,p521', timeout=1500),
    H('nist_derive_keypair_rejection_p521', ['C02', 'C03'], features='p384,p521', timeout=1500),
]

# `cargo kani --harness NAME` selects every harness whose path CONTAINS NAME: names must not contain one another
for _a in ALL:
    for _b in ALL:
        assert _a is _b or _a['name'] not in _b['name'], 'harness name %s is a substring of %s' % (_a['name'], _b['name'])


# Verus obligations that have a Kani twin on the same real function: when the Verus obligation fails, the twin
# is run (any tier) to obtain a concrete counterexample that is replayed natively
TWINS = {
    'aead.rs::open': 'open_alloc_model_bounded',
    'aead.rs::from_bytes': 'aead_tag_from_bytes_full',
    'op_mode.rs::new': 'psk_bundle_and_modes_bounded',
    'op_mode.rs::mode_id': 'psk_bundle_and_modes_bounded',
    'op_mode.rs::get_psk_bytes': 'psk_bundle_and_modes_bounded',
    'op_mode.rs::get_psk_id': 'psk_bundle_and_modes_bounded',
    'seal_in_place_detached': 'seal_state_machine_model',
    'open_in_place_detached': 'open_state_machine_model',
    'gen_keypair': 'gen_keypair_depends_only_on_rng',
    'single_shot_open_in_place_detached': 'single_shot_open_equiv_model',
    'single_shot_seal_in_place_detached': 'single_shot_seal_equiv_model',
    'encap_with_eph': 'x25519_dhkem_kdf_inputs',
    'decap_body': 'x25519_dhkem_kdf_inputs',
    'full_suite_id': 'suite_ids_table_x25519',
    'kem_suite_id': 'suite_ids_table_x25519',
}


def harnesses_for(pid, tier):
    return [h for h in ALL if pid in h['props'] and (tier == 'thorough' or h['tier'] == 'quick')]


def src_hash():
    h = hashlib.sha256()
    files = [os.path.join(REPO, 'Cargo.toml'), os.path.join(REPO, 'Cargo.lock')]
    for root in (os.path.join(REPO, 'src'), os.path.join(V, 'kani')):
        for d, _, fs in os.walk(root):
            for f in fs:
                files.append(os.path.join(d, f))
    files.append(os.path.abspath(__file__))
    for f in sorted(files):
        h.update(f.encode())
        try:
            h.update(open(f, 'rb').read())
        except OSError:
            pass
    return h.hexdigest()[:24]


def build_scratch(out, only=None):
    """only = set of fragment file names to append (default: all)"""
    os.makedirs(out, exist_ok=True)
    for f in ('Cargo.toml', 'Cargo.lock'):
        shutil.copy(os.path.join(REPO, f), os.path.join(out, f))
    for d in ('src', 'benches', 'examples'):
        if os.path.exists(os.path.join(out, d)):
            shutil.rmtree(os.path.join(out, d))
        if os.path.exists(os.path.join(REPO, d)):
            shutil.copytree(os.path.join(REPO, d), os.path.join(out, d))
    os.makedirs(os.path.join(out, '.cargo'), exist_ok=True)
    open(os.path.join(out, '.cargo', 'config.toml'), 'w').write('[net]\noffline = true\n')
    for rel, rx, attr in KANI_CONTRACTS:
        if only is not None and os.path.basename(rel) not in only:
            continue
        p = os.path.join(out, 'src', rel)
        txt = open(p).read()
        m = re.search(rx, txt, re.M)
        if not m:
            raise RuntimeError('anchor of a Kani function contract lost in src/%s: %s' % (rel, rx))
        open(p, 'w').write(txt[:m.start()] + attr + txt[m.start():])
    for frag, rel in FRAGMENTS.items():
        fp = os.path.join(V, 'kani', frag)
        if not os.path.exists(fp) or (only is not None and frag not in only):
            continue
        p = os.path.join(out, 'src', rel)
        if not os.path.exists(p):
            raise RuntimeError('source file missing for kani fragment: src/%s' % rel)
        txt = open(p).read()
        if rel == 'lib.rs':
            txt = '#![cfg_attr(kani, feature(stmt_expr_attributes, proc_macro_hygiene))]\n' + txt if False else txt
        open(p, 'w').write(txt + '\n' + open(fp).read())


def run_group(cmd, cwd, env, timeout):
    """run a command in its own process group and kill the WHOLE group on timeout (cargo-kani leaves cbmc running otherwise)"""
    import signal
    p = subprocess.Popen(cmd, cwd=cwd, stdout=subprocess.PIPE, stderr=subprocess.PIPE, text=True, env=env, start_new_session=True)
    try:
        o, e = p.communicate(timeout=timeout)
        return o + '\n' + e, p.returncode
    except subprocess.TimeoutExpired:
        try:
            os.killpg(p.pid, signal.SIGKILL)
        except ProcessLookupError:
            pass
        try:
            o, e = p.communicate(timeout=30)
        except Exception:
            o, e = '', ''
        return (o or '') + '\n' + (e or '') + '\nTIMEOUT after %ds' % timeout, 124


def run_one(scratch, h, ktarget):
    cmd = ['cargo', 'kani', '--target-dir', ktarget, '-Z', 'stubbing', '-Z', 'function-contracts',
           '--harness', h['name'], '--output-format', 'terse']
    if h['features']:
        cmd += ['--features', h['features']]
    cmd += h['extra']
    env = dict(os.environ, CARGO_NET_OFFLINE='true')
    t0 = time.time()
    out, rc = run_group(cmd, scratch, env, h['timeout'])
    dt = time.time() - t0
    res = {'name': h['name'], 'time_s': round(dt, 1), 'bound': h['bound'], 'complete': h['bound'] is None, 'rc': rc}
    if 'VERIFICATION:- SUCCESSFUL' in out and rc == 0:
        res['ok'] = True
        m = re.search(r'\*\* (\d+) of (\d+) cover properties satisfied', out)
        if h.get('must_not_return'):
            if not m or 'encountered one or more panics as expected' not in out:
                res['ok'] = False; res['undecided'] = True; res['detail'] = 'must-panic harness without sentinel cover or without should_panic'
            elif int(m.group(1)) != 0:
                res['ok'] = False
                res['detail'] = 'the call RETURNED without panicking for some input (sentinel cover VERIF_RETURNED is reachable)'
                res['log'] = out[-6000:]
        # vacuity: a cover that is unsatisfiable means the assumptions exclude everything
        elif m and int(m.group(1)) == 0:
            res['ok'] = False; res['undecided'] = True; res['detail'] = 'vacuous harness: no cover property satisfiable'
    elif 'VERIFICATION:- FAILED' in out:
        res['ok'] = False
        fails = re.findall(r'Failed Checks: ([^\n]*)', out)
        res['detail'] = '; '.join(fails[:6]) or 'verification failed'
        if fails and all(f.startswith('VERIF_UNDECIDED') for f in fails):
            # the harness itself says that its obligation no longer covers the changed code
            res['undecided'] = True
        if fails and all('is not currently supported by Kani' in f for f in fails):
            # the (changed) code reaches a construct Kani cannot model, e.g. inline asm: no verdict either way
            res['undecided'] = True
        if re.search(r'unwinding assertion', out):
            res['undecided'] = True
            res['detail'] = 'unwinding assertion failed (bound too small): ' + res['detail']
        res['log'] = out[-6000:]
    else:
        res['ok'] = False
        res['undecided'] = True
        res['detail'] = 'kani did not complete: rc=%s %s' % (rc, '\n'.join(l for l in out.splitlines() if l.startswith('error') or ' --> ' in l)[:1500] or out[-800:])
    return res


def playback(h, ktarget, only=None):
    """counterexample replay: Kani's concrete values for the failed check are written as a unit test into the
    harness module (`--concrete-playback=inplace`) and executed NATIVELY against the real code"""
    sc = tempfile.mkdtemp(prefix='hpke_kplay_')
    env = dict(os.environ, CARGO_NET_OFFLINE='true')
    try:
        build_scratch(sc, only=only)
        cmd = ['cargo', 'kani', '--target-dir', ktarget, '-Z', 'stubbing', '-Z', 'function-contracts', '-Z', 'concrete-playback',
               '--concrete-playback=inplace', '--harness', h['name'], '--output-format', 'terse']
        if h['features']:
            cmd += ['--features', h['features']]
        # trace extraction can take far longer than the proof itself: give it 5 minutes, then report without concrete input
        run_group(cmd, sc, env, min(300, h['timeout']))
        tests = []
        for root, _, fs in os.walk(os.path.join(sc, 'src')):
            for f in fs:
                fp = os.path.join(root, f)
                txt = open(fp).read()
                # Kani sometimes writes the same generated test twice (same name): keep the first copy only
                seen = set()
                def dedupe(m):
                    if m.group(1) in seen:
                        return ''
                    seen.add(m.group(1))
                    return m.group(0)
                txt2 = re.sub(r'(?:[ \t]*///[^\n]*\n|[ \t]*\n)*[ \t]*#\[test\]\s*fn (kani_concrete_playback_\w+)\(\) \{.*?\n\s*\}\n', dedupe, txt, flags=re.S)
                if txt2 != txt:
                    open(fp, 'w').write(txt2)
                    txt = txt2
                # (harnesses with stubs get an extra `# Warning` doc block between the "Check for" line and #[test])
                for m in re.finditer(r'/// Check for `(?!cover)[^\n]*\n(?:[ \t]*///[^\n]*\n|[ \t]*\n)*[ \t]*#\[test\]\s*fn (kani_concrete_playback_\w+)\(\) \{.*?\n\s*\}', txt, re.S):
                    tests.append((m.group(1), m.group(0)))
        if not tests:
            return None
        cmd = ['cargo', 'kani', 'playback', '-Z', 'concrete-playback']
        if h['features']:
            cmd += ['--features', h['features']]
        cmd += ['--', tests[0][0]]
        with PrivateTarget('kani-playback-target') as ppt:
            env2 = dict(env, CARGO_TARGET_DIR=ppt.path)
            p = subprocess.run(cmd, cwd=sc, capture_output=True, text=True, timeout=900, env=env2)
        out = p.stdout + p.stderr
        lines = [l for l in out.splitlines() if re.search(r'^test |panicked at|^assertion|^  left|^ right|test result|^error\[', l)]
        native = 'FAILS natively (counterexample confirmed on the real code)' if 'test result: FAILED' in out else \
                 ('passes natively (Kani counterexample NOT reproduced)' if 'test result: ok' in out else 'native run did not complete')
        return {'test': tests[0][1].replace(sc, '<scratch>'), 'native': native, 'native_output': '\n'.join(lines[:12])}
    except Exception as e:
        return {'test': None, 'native': 'playback failed: %r' % (e,), 'native_output': ''}
    finally:
        shutil.rmtree(sc, ignore_errors=True)



FRAG_DEPS = {'setup.rs': {'aead.rs', 'kem.rs'}}


def fragments_of(name):
    """the harness fragment that defines `name`, plus the fragments it imports from"""
    for frag in FRAGMENTS:
        fp = os.path.join(V, 'kani', frag)
        if os.path.exists(fp) and re.search(r'\bfn %s\(' % re.escape(name), open(fp).read()):
            return {frag} | FRAG_DEPS.get(frag, set())
    return None


def is_build_failure(r):
    return bool(r.get('build_failure')) or bool(r.get('undecided') and re.search(r'error\[E\d+\]|could not compile|Found \d+ compilation errors', r.get('detail') or ''))


def run_for_property(pid, tier, seed, extra_names=()):
    hs = harnesses_for(pid, tier)
    hs = hs + [h for h in ALL if h['name'] in extra_names and h not in hs]
    if not hs:
        return {'status': 'ok', 'harnesses': [], 'counterexamples': {}}
    key = src_hash()
    rdir = os.path.join(CACHE, 'results')
    os.makedirs(rdir, exist_ok=True)
    cache_p = os.path.join(rdir, 'kani-%s.json' % key)
    cache = {}
    if os.path.exists(cache_p) and not os.environ.get('VERIF_NOCACHE'):
        try:
            cache = json.load(open(cache_p))
        except Exception:
            cache = {}
    todo = [h for h in hs if h['name'] not in cache]
    pt = PrivateTarget('kani-target')
    state = {'entered': False}
    def ktarget():
        if not state['entered']:
            pt.__enter__()
            state['entered'] = True
        return pt.path
    try:
        return _run_for_property(hs, todo, cache, cache_p, ktarget)
    finally:
        if state['entered']:
            pt.__exit__(None, None, None)


def _run_for_property(hs, todo, cache, cache_p, ktarget):
    if todo:
        scratch = tempfile.mkdtemp(prefix='hpke_kani_')
        try:
            try:
                build_scratch(scratch)
                full_err = None
            except RuntimeError as e:
                full_err = str(e)
            if full_err is None:
                # first harness alone (builds the dependency graph once), the rest in parallel
                kt = ktarget()
                first = run_one(scratch, todo[0], kt)
                cache[first['name']] = first
                rest = todo[1:]
                if rest:
                    with ThreadPoolExecutor(max_workers=6) as ex:
                        for r in ex.map(lambda h: run_one(scratch, h, kt), rest):
                            cache[r['name']] = r
            else:
                # e.g. the anchor of a Kani function contract is lost: harnesses of other fragments can still be built alone
                for h in todo:
                    cache[h['name']] = {'name': h['name'], 'time_s': 0, 'bound': h['bound'], 'complete': h['bound'] is None, 'rc': None,
                                        'ok': False, 'undecided': True, 'build_failure': True, 'detail': full_err}
            # the harness crate is ONE compilation unit: a change of an internal signature used by some OTHER harness
            # fragment stops every harness from building.  Retry such harnesses with only their own fragment(s) appended
            for h in todo:
                r = cache[h['name']]
                frs = fragments_of(h['name'])
                if is_build_failure(r) and frs and frs != set(FRAGMENTS):
                    sc2 = tempfile.mkdtemp(prefix='hpke_kani_iso_')
                    try:
                        build_scratch(sc2, only=frs)
                        r2 = run_one(sc2, h, ktarget())
                        r2['isolated_build'] = sorted(frs)
                        cache[h['name']] = r2
                    except RuntimeError:
                        pass
                    finally:
                        shutil.rmtree(sc2, ignore_errors=True)
            # re-read to merge with concurrent writers
            try:
                old = json.load(open(cache_p))
                old.update(cache); cache = old
            except Exception:
                pass
            json.dump(cache, open(cache_p, 'w'))
        finally:
            shutil.rmtree(scratch, ignore_errors=True)
    out = []
    cex = {}
    for h in hs:
        r = dict(cache[h['name']])
        out.append(r)
        if not r['ok'] and not r.get('undecided'):
            if 'playback' not in r:
                r['playback'] = playback(h, ktarget(), only=set(r['isolated_build']) if r.get('isolated_build') else None)
                cache[h['name']]['playback'] = r['playback']
                try:
                    json.dump(cache, open(cache_p, 'w'))
                except Exception:
                    pass
            pb = r.get('playback')
            txt = 'kani harness %s FAILED: %s\n' % (h['name'], r.get('detail'))
            if pb and pb.get('test'):
                txt += 'concrete input found by CBMC, as a unit test:\n%s\nnative execution against the real code: %s\n%s\n' % (pb['test'], pb['native'], pb['native_output'])
                r['has_cex'] = 'FAILS natively' in pb['native']
            txt += '\n--- kani log (tail) ---\n' + r.get('log', '')[-2500:]
            cex['kani %s' % h['name']] = txt
    return {'status': 'ok', 'harnesses': out, 'counterexamples': cex}


if __name__ == '__main__':
    # python3 tools/kani_run.py <harness>...   (debug helper: runs in a kept scratch dir)
    # python3 tools/kani_run.py --warm         (setup: builds the shared dependency base with one cheap harness)
    names = sys.argv[1:]
    if names == ['--warm']:
        names = ['seq_default_is_zero']
    d = os.environ.get('KANI_SCRATCH') or tempfile.mkdtemp(prefix='hpke_kani_')
    build_scratch(d)
    with PrivateTarget('kani-target') as pt:
        for h in ALL:
            if h['name'] in names or not names:
                r = run_one(d, h, pt.path)
                print(json.dumps({k: v for k, v in r.items() if k != 'log'}))
                if not r['ok']:
                    print(r.get('log', '')[-3000:])
    if not os.environ.get('KANI_SCRATCH'):
        shutil.rmtree(d, ignore_errors=True)
