// ---- /verif/kani/setup.rs: appended to src/setup.rs in the Kani scratch copy ----
#[cfg(kani)]
mod verif_kani {
    // the crate is no_std: names needed by Kani's generated concrete-playback tests
    extern crate std as verif_std;
    #[allow(unused_imports)] use verif_std::{vec, vec::Vec};
    use super::*;
    use crate::kdf::{HkdfSha256, HkdfSha384, HkdfSha512};
    pub(crate) fn noop_barrier<T: ?Sized>(_val: &T) {}

    fn check_exporter_wiped<K: KdfTrait>() {
        use core::mem::MaybeUninit;
        let mut slot: MaybeUninit<ExporterSecret<K>> = MaybeUninit::uninit();
        let mut e = <ExporterSecret<K> as Default>::default();
        let n = e.0.len();
        let mut i = 0;
        while i < n { e.0[i] = kani::any(); i += 1; }
        slot.write(e);
        let p = slot.as_mut_ptr();
        unsafe {
            core::ptr::drop_in_place(p);
            let bytes = p as *const u8;
            let mut i = 0;
            while i < n { assert!(*bytes.add(i) == 0); i += 1; }
        }
        assert!(core::mem::size_of::<ExporterSecret<K>>() == n);
    }
    /// C16: dropping an exporter secret wipes every byte, for all three KDFs
    #[kani::proof] #[kani::unwind(34)] #[kani::stub(zeroize::optimization_barrier, noop_barrier)]
    fn drop_wipes_exporter_sha256() { check_exporter_wiped::<HkdfSha256>(); }
    #[kani::proof] #[kani::unwind(50)] #[kani::stub(zeroize::optimization_barrier, noop_barrier)]
    fn drop_wipes_exporter_sha384() { check_exporter_wiped::<HkdfSha384>(); }
    #[kani::proof] #[kani::unwind(66)] #[kani::stub(zeroize::optimization_barrier, noop_barrier)]
    fn drop_wipes_exporter_sha512() { check_exporter_wiped::<HkdfSha512>(); }
}
