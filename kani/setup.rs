// ---- /verif/kani/setup.rs: appended to src/setup.rs in the Kani scratch copy ----
#[cfg(kani)]
mod verif_kani {
    // the crate is no_std: names needed by Kani's generated concrete-playback tests
    extern crate std as verif_std;
    #[allow(unused_imports)] use verif_std::{vec, vec::Vec};
    use super::*;
    use crate::kdf::{HkdfSha256, HkdfSha384, HkdfSha512};
    pub(crate) fn noop_barrier<T: ?Sized>(_val: &T) {}

    fn check_exporter_wiped<K: KdfTrait>() {
        use core::mem::MaybeUninit;
        let mut slot: MaybeUninit<ExporterSecret<K>> = MaybeUninit::uninit();
        let mut e = <ExporterSecret<K> as Default>::default();
        let n = e.0.len();
        let mut i = 0;
        while i < n { e.0[i] = kani::any(); i += 1; }
        slot.write(e);
        let p = slot.as_mut_ptr();
        unsafe {
            core::ptr::drop_in_place(p);
            let bytes = p as *const u8;
            let mut i = 0;
            while i < n { assert!(*bytes.add(i) == 0); i += 1; }
        }
        assert!(core::mem::size_of::<ExporterSecret<K>>() == n);
    }
    /// C16: dropping an exporter secret wipes every byte, for all three KDFs
    #[kani::proof] #[kani::unwind(34)] #[kani::stub(zeroize::optimization_barrier, noop_barrier)]
    fn drop_wipes_exporter_sha256() { check_exporter_wiped::<HkdfSha256>(); }
    #[kani::proof] #[kani::unwind(50)] #[kani::stub(zeroize::optimization_barrier, noop_barrier)]
    fn drop_wipes_exporter_sha384() { check_exporter_wiped::<HkdfSha384>(); }
    #[kani::proof] #[kani::unwind(66)] #[kani::stub(zeroize::optimization_barrier, noop_barrier)]
    fn drop_wipes_exporter_sha512() { check_exporter_wiped::<HkdfSha512>(); }

    // ------------------------------------------------------------------ C14: single-shot == composed operations
    // The single_shot_* functions are parametric in A, Kdf and Kem.  They are run here - REAL bodies - with the model AEAD
    // (records the nonce it is handed), the model KEM (fails iff the peer key starts with 0; the secret records the keys) and
    // the key schedule replaced by a stub that copies its inputs (mode byte, psk / psk_id / info lengths and first bytes,
    // three secret bytes) into the base nonce, so any difference in what reaches the key schedule becomes a difference in the
    // nonce the AEAD sees.  Kani twin of the Verus contracts of single_shot.rs (which are the proof); source of counterexamples.
    use crate::aead::verif_kani::{model_calls, model_last_nonce, model_reset, ModelAead};
    use crate::kem::verif_kani::{MKey, ModelKem, ScriptRng};
    use crate::op_mode::PskBundle;
    use crate::{Deserializable, Serializable};
    fn schedule_stub<A: Aead, Kdf: KdfTrait, Kem: KemTrait, O: OpMode<Kem>>(mode: &O, ss: SharedSecret<Kem>, info: &[u8]) -> AeadCtx<A, Kdf, Kem> {
        let key = crate::aead::AeadKey::<A>::default();
        let mut n = crate::aead::AeadNonce::<A>::default();
        n.0[0] = mode.mode_id();
        n.0[1] = mode.get_psk_bytes().len() as u8;
        n.0[2] = mode.get_psk_id().len() as u8;
        n.0[3] = info.len() as u8;
        n.0[4] = if info.len() > 0 { info[0] } else { 0 };
        n.0[5] = ss.0[0]; n.0[6] = ss.0[1]; n.0[7] = ss.0[2];
        n.0[8] = if mode.get_psk_bytes().len() > 0 { mode.get_psk_bytes()[0] } else { 0 };
        AeadCtx::new(&key, n, <ExporterSecret<Kdf> as Default>::default())
    }
    fn any_mode_r<'a>(k: u8, pk: MKey, psk: &'a [u8], id: &'a [u8]) -> OpModeR<'a, ModelKem> {
        match k {
            0 => OpModeR::Base,
            1 => OpModeR::Psk(PskBundle::new(psk, id).unwrap()),
            2 => OpModeR::Auth(pk),
            _ => OpModeR::AuthPsk(pk, PskBundle::new(psk, id).unwrap()),
        }
    }
    #[kani::proof]
    #[kani::unwind(34)]
    #[kani::stub(crate::setup::derive_enc_ctx, schedule_stub)]
    #[kani::stub(zeroize::optimization_barrier, noop_barrier)]
    fn single_shot_open_equiv_model() {
        let k: u8 = kani::any();
        kani::assume(k < 4);
        let empty_psk: bool = kani::any();
        let (psk, id): (&[u8], &[u8]) = if empty_psk { (b"", b"") } else { (b"pk", b"i") };
        let pks = MKey([kani::any(), 2, 3, 4]);
        let sk = MKey([kani::any(), 1, 1, 1]);
        let enc = MKey([kani::any(), 5, 5, 5]);
        let info: &[u8] = if kani::any() { b"" } else { b"xy" };
        let good: bool = kani::any();
        let tb = [if good { 0xA5u8 } else { 0x00 }; 16];
        let tag = crate::aead::AeadTag::<ModelAead>::from_bytes(&tb).unwrap();
        let ct0: [u8; 2] = kani::any();
        // path A: single shot
        let mode_a = any_mode_r(k, pks.clone(), psk, id);
        let mut ct_a = ct0;
        model_reset(false);
        let r_a = crate::single_shot::single_shot_open_in_place_detached::<ModelAead, HkdfSha256, ModelKem>(&mode_a, &sk, &enc, info, &mut ct_a, b"aad", &tag);
        let (calls_a, nonce_a) = (model_calls(), model_last_nonce());
        // path A once more (C18: the result is a function of the arguments - a repeated call gives the same answer)
        let mode_a2 = any_mode_r(k, pks.clone(), psk, id);
        let mut ct_a2 = ct0;
        model_reset(false);
        let r_a2 = crate::single_shot::single_shot_open_in_place_detached::<ModelAead, HkdfSha256, ModelKem>(&mode_a2, &sk, &enc, info, &mut ct_a2, b"aad", &tag);
        assert!(r_a2 == r_a && ct_a2 == ct_a && model_calls() == calls_a);
        // path B: receiver setup followed by one open
        let mode_b = any_mode_r(k, pks.clone(), psk, id);
        let mut ct_b = ct0;
        model_reset(false);
        let r_b = match setup_receiver::<ModelAead, HkdfSha256, ModelKem>(&mode_b, &sk, &enc, info) {
            Err(e) => Err(e),
            Ok(mut ctx) => { let r = ctx.open_in_place_detached(&mut ct_b, b"aad", &tag); core::mem::forget(ctx); r }
        };
        let (calls_b, nonce_b) = (model_calls(), model_last_nonce());
        kani::cover!(r_a.is_ok());
        kani::cover!(r_a == Err(HpkeError::DecapError));
        kani::cover!(r_a == Err(HpkeError::OpenError));
        assert!(r_a == r_b);
        assert!(calls_a == calls_b);
        assert!(ct_a == ct_b);
        let mut i = 0;
        while i < 12 { assert!(nonce_a[i] == nonce_b[i]); i += 1; }
    }

    #[kani::proof]
    #[kani::unwind(34)]
    #[kani::stub(crate::setup::derive_enc_ctx, schedule_stub)]
    #[kani::stub(zeroize::optimization_barrier, noop_barrier)]
    fn single_shot_seal_equiv_model() {
        use crate::op_mode::OpModeS;
        let k: u8 = kani::any();
        kani::assume(k < 4);
        let empty_psk: bool = kani::any();
        let (psk, id): (&[u8], &[u8]) = if empty_psk { (b"", b"") } else { (b"pk", b"i") };
        let mk = |k: u8| -> OpModeS<'_, ModelKem> {
            match k {
                0 => OpModeS::Base,
                1 => OpModeS::Psk(PskBundle::new(psk, id).unwrap()),
                2 => OpModeS::Auth((MKey([7, 7, 7, 7]), MKey([8, 8, 8, 8]))),
                _ => OpModeS::AuthPsk((MKey([7, 7, 7, 7]), MKey([8, 8, 8, 8])), PskBundle::new(psk, id).unwrap()),
            }
        };
        let pkr = MKey([kani::any(), 9, 9, 9]);
        let data: [u8; 8] = kani::any();
        let (info, aad): (&[u8], &[u8]) = (b"inf", b"a");
        let pt0: [u8; 2] = kani::any();
        let fail: bool = kani::any();
        // path A
        let mut pt_a = pt0;
        let mut rng_a = ScriptRng { data, pos: 0 };
        model_reset(fail);
        let r_a = crate::single_shot::single_shot_seal_in_place_detached::<ModelAead, HkdfSha256, ModelKem, _>(&mk(k), &pkr, info, &mut pt_a, aad, &mut rng_a);
        let (calls_a, nonce_a) = (model_calls(), model_last_nonce());
        // path B
        let mut pt_b = pt0;
        let mut rng_b = ScriptRng { data, pos: 0 };
        model_reset(fail);
        let r_b = match setup_sender::<ModelAead, HkdfSha256, ModelKem, _>(&mk(k), &pkr, info, &mut rng_b) {
            Err(e) => Err(e),
            Ok((enc, mut ctx)) => { let r = ctx.seal_in_place_detached(&mut pt_b, aad); core::mem::forget(ctx); r.map(|t| (enc, t)) }
        };
        let (calls_b, nonce_b) = (model_calls(), model_last_nonce());
        kani::cover!(r_a.is_ok());
        kani::cover!(r_a.is_err());
        match (&r_a, &r_b) {
            (Ok((e1, t1)), Ok((e2, t2))) => { assert!(e1 == e2); assert!(t1.to_bytes() == t2.to_bytes()); }
            (Err(x), Err(y)) => assert!(x == y),
            _ => assert!(false),
        }
        assert!(calls_a == calls_b && pt_a == pt_b && rng_a.pos == rng_b.pos);
        let mut i = 0;
        while i < 12 { assert!(nonce_a[i] == nonce_b[i]); i += 1; }
    }
}
