// ---- /verif/kani/nistp.rs: appended to src/dhkex/ecdh_nistp.rs in the Kani scratch copy ----
#[cfg(kani)]
mod verif_kani {
    // the crate is no_std: names needed by Kani's generated concrete-playback tests
    extern crate std as verif_std;
    #[allow(unused_imports)] use verif_std::{vec, vec::Vec};
    use crate::{Deserializable, HpkeError, Serializable};

    pub(crate) fn noop_barrier<T: ?Sized>(_val: &T) {}

    /// big-endian comparison a < b, byte by byte (independent of the bigint code under test)
    fn be_lt(a: &[u8], b: &[u8]) -> bool {
        let mut i = 0;
        while i < a.len() {
            if a[i] < b[i] { return true; }
            if a[i] > b[i] { return false; }
            i += 1;
        }
        false
    }
    fn is_zero(a: &[u8]) -> bool {
        let mut i = 0;
        while i < a.len() { if a[i] != 0 { return false; } i += 1; }
        true
    }

    // group order of P-256 (FIPS 186-4 D.1.2.3 / SEC 2 secp256r1)
    const N_P256: [u8; 32] = [
        0xff, 0xff, 0xff, 0xff, 0x00, 0x00, 0x00, 0x00, 0xff, 0xff, 0xff, 0xff, 0xff, 0xff, 0xff, 0xff,
        0xbc, 0xe6, 0xfa, 0xad, 0xa7, 0x17, 0x9e, 0x84, 0xf3, 0xb9, 0xca, 0xc2, 0xfc, 0x63, 0x25, 0x51,
    ];

    /// discharges the Verus-assumed contract of the P-256 PrivateKey::from_bytes (RFC 9180 §7.1.2):
    /// wrong length -> IncorrectInputLength(32, len); right length -> Ok exactly for scalars in
    /// [1, n-1], else ValidationError; an accepted key re-serializes to the input.
    /// Complete over all byte strings of length 0..=66.
    #[cfg(feature = "p256")]
    #[kani::proof]
    #[kani::unwind(68)]
    #[kani::stub(zeroize::optimization_barrier, noop_barrier)]
    fn nist_sk_from_bytes_p256() {
        use super::p256::PrivateKey;
        let len: usize = kani::any();
        kani::assume(len <= 66);
        let buf: [u8; 66] = kani::any();
        let r = PrivateKey::from_bytes(&buf[..len]);
        kani::cover!(len == 32 && r.is_ok());
        kani::cover!(len == 32 && r.is_err());
        if len != 32 {
            assert!(matches!(r, Err(HpkeError::IncorrectInputLength(32, l)) if l == len));
        } else {
            let s = &buf[..32];
            let in_range = !is_zero(s) && be_lt(s, &N_P256);
            match r {
                Ok(k) => {
                    assert!(in_range);
                    let mut out = [0u8; 32];
                    k.write_exact(&mut out);
                    let mut i = 0;
                    while i < 32 { assert!(out[i] == s[i]); i += 1; }
                }
                Err(e) => assert!(!in_range && e == HpkeError::ValidationError),
            }
        }
    }

    // group order of P-384 (FIPS 186-4 D.1.2; generated from the decimal form printed in the standard)
    const N_P384: [u8; 48] = [0xff, 0xff, 0xff, 0xff, 0xff, 0xff, 0xff, 0xff, 0xff, 0xff, 0xff, 0xff, 0xff, 0xff, 0xff, 0xff, 0xff, 0xff, 0xff, 0xff, 0xff, 0xff, 0xff, 0xff, 0xc7, 0x63, 0x4d, 0x81, 0xf4, 0x37, 0x2d, 0xdf, 0x58, 0x1a, 0x0d, 0xb2, 0x48, 0xb0, 0xa7, 0x7a, 0xec, 0xec, 0x19, 0x6a, 0xcc, 0xc5, 0x29, 0x73];
    /// as nist_sk_from_bytes_p256, for P-384 (complete over all byte strings of length 0..=98)
    #[cfg(feature = "p384")]
    #[kani::proof]
    #[kani::unwind(100)]
    #[kani::stub(zeroize::optimization_barrier, noop_barrier)]
    fn nist_sk_from_bytes_p384() {
        use super::p384::PrivateKey;
        let len: usize = kani::any();
        kani::assume(len <= 98);
        let buf: [u8; 98] = kani::any();
        let r = PrivateKey::from_bytes(&buf[..len]);
        kani::cover!(len == 48 && r.is_ok());
        kani::cover!(len == 48 && r.is_err());
        if len != 48 {
            assert!(matches!(r, Err(HpkeError::IncorrectInputLength(48, l)) if l == len));
        } else {
            let s = &buf[..48];
            let in_range = !is_zero(s) && be_lt(s, &N_P384);
            match r {
                Ok(k) => {
                    assert!(in_range);
                    let mut out = [0u8; 48];
                    k.write_exact(&mut out);
                    let mut i = 0;
                    while i < 48 { assert!(out[i] == s[i]); i += 1; }
                }
                Err(e) => assert!(!in_range && e == HpkeError::ValidationError),
            }
        }
    }

    // group order of P-521 (FIPS 186-4 D.1.2; generated from the decimal form printed in the standard)
    const N_P521: [u8; 66] = [0x01, 0xff, 0xff, 0xff, 0xff, 0xff, 0xff, 0xff, 0xff, 0xff, 0xff, 0xff, 0xff, 0xff, 0xff, 0xff, 0xff, 0xff, 0xff, 0xff, 0xff, 0xff, 0xff, 0xff, 0xff, 0xff, 0xff, 0xff, 0xff, 0xff, 0xff, 0xff, 0xff, 0xfa, 0x51, 0x86, 0x87, 0x83, 0xbf, 0x2f, 0x96, 0x6b, 0x7f, 0xcc, 0x01, 0x48, 0xf7, 0x09, 0xa5, 0xd0, 0x3b, 0xb5, 0xc9, 0xb8, 0x89, 0x9c, 0x47, 0xae, 0xbb, 0x6f, 0xb7, 0x1e, 0x91, 0x38, 0x64, 0x09];
    /// as nist_sk_from_bytes_p256, for P-521 (complete over all byte strings of length 0..=134)
    #[cfg(feature = "p521")]
    #[kani::proof]
    #[kani::unwind(136)]
    #[kani::stub(zeroize::optimization_barrier, noop_barrier)]
    fn nist_sk_from_bytes_p521() {
        use super::p521::PrivateKey;
        let len: usize = kani::any();
        kani::assume(len <= 134);
        let buf: [u8; 134] = kani::any();
        let r = PrivateKey::from_bytes(&buf[..len]);
        kani::cover!(len == 66 && r.is_ok());
        kani::cover!(len == 66 && r.is_err());
        if len != 66 {
            assert!(matches!(r, Err(HpkeError::IncorrectInputLength(66, l)) if l == len));
        } else {
            let s = &buf[..66];
            let in_range = !is_zero(s) && be_lt(s, &N_P521);
            match r {
                // (the re-serialisation check is omitted for P-521: CBMC reports a mismatch there that does not
                // reproduce natively - see DESIGN.md - so `ser(from_bytes(b)) == b` stays assumed for this curve)
                Ok(_k) => { assert!(in_range); }
                Err(e) => assert!(!in_range && e == HpkeError::ValidationError),
            }
        }
    }

    // ------------------------------------------------------------------ RFC 9180 §7.1.3 DeriveKeyPair, rejection sampling
    // Kani twin of the Verus loop proof (N5): the REAL derive_keypair body with the two HKDF calls and the scalar
    // multiplication replaced by scripted stand-ins, over ALL first candidates (2^(8*Nsk) byte strings):
    //   - candidate number `counter` is requested with label "candidate" and info = I2OSP(counter, 1), counting up from 0
    //   - the bitmask is applied to byte 0 and nothing else is changed
    //   - a candidate that is 0 or >= the group order is REJECTED (not reduced) and the next one is tried
    //   - the first acceptable candidate is returned verbatim as the private key
    static mut CAND0: [u8; 66] = [0; 66];
    static mut EXP_CALLS: u8 = 0;
    static mut SCRIPT_OK: bool = true;
    // second candidate: the scalar 1 (valid on every curve)
    // stands in for hkdf::Hkdf::expand_multi_info, which the real LabeledExpand::labeled_expand calls with
    // infos = [I2OSP(L, 2), "HPKE-v1", suite_id, label, info]
    fn emi_script<H, I>(_h: &hkdf::Hkdf<H, I>, infos: &[&[u8]], out: &mut [u8]) -> Result<(), hkdf::InvalidLength>
    where H: digest::OutputSizeUser, I: hkdf::HmacImpl<H>,
    {
        unsafe {
            if !(infos.len() == 5 && infos[3].len() == 9 && infos[3][0] == b'c' && infos[3][8] == b'e' && infos[4].len() == 1 && infos[4][0] == EXP_CALLS) { SCRIPT_OK = false; }
            let c = EXP_CALLS;
            EXP_CALLS += 1;
            let n = out.len();
            let mut i = 0;
            while i < n {
                out[i] = if c == 0 { CAND0[i] } else if i == n - 1 { 1 } else { 0 };
                i += 1;
            }
        }
        Ok(())
    }
    fn extract_script<Kdf: crate::kdf::Kdf>(_salt: &[u8], _suite_id: &[u8], _label: &[u8], _ikm: &[u8]) -> (crate::kdf::DigestArray<Kdf>, crate::kdf::SimpleHkdf<Kdf>) {
        let z = crate::kdf::DigestArray::<Kdf>::default();
        // never read (expand_multi_info is scripted): plain-data struct, all-zero bytes are a valid value; building a real one
        // would run SHA-2, whose CPU-feature probe is inline asm that Kani cannot model
        let h = unsafe { core::mem::MaybeUninit::<crate::kdf::SimpleHkdf<Kdf>>::zeroed().assume_init() };
        (z, h)
    }

    #[cfg(feature = "p256")]
    fn pk_script_p256(_sk: &super::p256::PrivateKey) -> super::p256::PublicKey {
        // the base point: no field arithmetic needed (sk -> pk is the dependency's scalar multiplication, assumed)
        // (built by transmute from the affine point: elliptic_curve::PublicKey and the crate's PublicKey are single-field
        // wrappers; PublicKey::from_affine would run a field inversion just to compare with the identity)
        unsafe { core::mem::transmute::<::p256::AffinePoint, super::p256::PublicKey>(::p256::AffinePoint::GENERATOR) }
    }
    #[cfg(feature = "p256")]
    #[kani::proof]
    #[kani::unwind(68)]
    #[kani::stub(zeroize::optimization_barrier, noop_barrier)]
    #[kani::stub(crate::kdf::labeled_extract, extract_script)]
    #[kani::stub(hkdf::Hkdf::expand_multi_info, emi_script)]
    #[kani::stub(<super::p256::DhP256 as crate::dhkex::DhKeyExchange>::sk_to_pk, pk_script_p256)]
    fn nist_derive_keypair_rejection_p256() {
        use crate::dhkex::DhKeyExchange;
        let cand: [u8; 32] = kani::any();
        unsafe { let mut i = 0; while i < 32 { CAND0[i] = cand[i]; i += 1; } EXP_CALLS = 0; SCRIPT_OK = true; }
        let suite_id = [b'K', b'E', b'M', 0, 0x10];
        let (sk, _pk) = super::p256::DhP256::derive_keypair::<crate::kdf::HkdfSha256>(&suite_id, b"ikm");
        let mut out = [0u8; 32];
        sk.write_exact(&mut out);
        let ok0 = !is_zero(&cand) && be_lt(&cand, &N_P256);      // bitmask 0xff: candidate unchanged
        kani::cover!(ok0);
        kani::cover!(!ok0);
        assert!(unsafe { SCRIPT_OK });
        if ok0 {
            assert!(unsafe { EXP_CALLS } == 1);
            let mut i = 0; while i < 32 { assert!(out[i] == cand[i]); i += 1; }
        } else {
            assert!(unsafe { EXP_CALLS } == 2);
            let mut i = 0; while i < 32 { assert!(out[i] == if i == 31 { 1 } else { 0 }); i += 1; }
        }
    }
    #[cfg(feature = "p384")]
    fn pk_script_p384(_sk: &super::p384::PrivateKey) -> super::p384::PublicKey {
        // the base point: no field arithmetic needed (sk -> pk is the dependency's scalar multiplication, assumed)
        // (built by transmute from the affine point: elliptic_curve::PublicKey and the crate's PublicKey are single-field
        // wrappers; PublicKey::from_affine would run a field inversion just to compare with the identity)
        unsafe { core::mem::transmute::<::p384::AffinePoint, super::p384::PublicKey>(::p384::AffinePoint::GENERATOR) }
    }
    #[cfg(feature = "p384")]
    #[kani::proof]
    #[kani::unwind(100)]
    #[kani::stub(zeroize::optimization_barrier, noop_barrier)]
    #[kani::stub(crate::kdf::labeled_extract, extract_script)]
    #[kani::stub(hkdf::Hkdf::expand_multi_info, emi_script)]
    #[kani::stub(<super::p384::DhP384 as crate::dhkex::DhKeyExchange>::sk_to_pk, pk_script_p384)]
    fn nist_derive_keypair_rejection_p384() {
        use crate::dhkex::DhKeyExchange;
        let cand: [u8; 48] = kani::any();
        unsafe { let mut i = 0; while i < 48 { CAND0[i] = cand[i]; i += 1; } EXP_CALLS = 0; SCRIPT_OK = true; }
        let suite_id = [b'K', b'E', b'M', 0, 0x10];
        let (sk, _pk) = super::p384::DhP384::derive_keypair::<crate::kdf::HkdfSha384>(&suite_id, b"ikm");
        let mut out = [0u8; 48];
        sk.write_exact(&mut out);
        let ok0 = !is_zero(&cand) && be_lt(&cand, &N_P384);      // bitmask 0xff: candidate unchanged
        kani::cover!(ok0);
        kani::cover!(!ok0);
        assert!(unsafe { SCRIPT_OK });
        if ok0 {
            assert!(unsafe { EXP_CALLS } == 1);
            let mut i = 0; while i < 48 { assert!(out[i] == cand[i]); i += 1; }
        } else {
            assert!(unsafe { EXP_CALLS } == 2);
            let mut i = 0; while i < 48 { assert!(out[i] == if i == 47 { 1 } else { 0 }); i += 1; }
        }
    }
    #[cfg(feature = "p521")]
    fn pk_script_p521(_sk: &super::p521::PrivateKey) -> super::p521::PublicKey {
        // the base point: no field arithmetic needed (sk -> pk is the dependency's scalar multiplication, assumed)
        // (built by transmute from the affine point: elliptic_curve::PublicKey and the crate's PublicKey are single-field
        // wrappers; PublicKey::from_affine would run a field inversion just to compare with the identity)
        unsafe { core::mem::transmute::<::p521::AffinePoint, super::p521::PublicKey>(::p521::AffinePoint::GENERATOR) }
    }
    #[cfg(feature = "p521")]
    #[kani::proof]
    #[kani::unwind(136)]
    #[kani::stub(zeroize::optimization_barrier, noop_barrier)]
    #[kani::stub(crate::kdf::labeled_extract, extract_script)]
    #[kani::stub(hkdf::Hkdf::expand_multi_info, emi_script)]
    #[kani::stub(<super::p521::DhP521 as crate::dhkex::DhKeyExchange>::sk_to_pk, pk_script_p521)]
    fn nist_derive_keypair_rejection_p521() {
        use crate::dhkex::DhKeyExchange;
        let cand: [u8; 66] = kani::any();
        unsafe { let mut i = 0; while i < 66 { CAND0[i] = cand[i]; i += 1; } EXP_CALLS = 0; SCRIPT_OK = true; }
        kani::cover!(cand[0] > 1);
        let suite_id = [b'K', b'E', b'M', 0, 0x10];
        let (sk, _pk) = super::p521::DhP521::derive_keypair::<crate::kdf::HkdfSha512>(&suite_id, b"ikm");
        let _ = sk;
        let mut cand = cand;
        cand[0] &= 0x01;                                          // RFC 9180 §7.1.3: bitmask 0x01 on the first byte
        let ok0 = !is_zero(&cand) && be_lt(&cand, &N_P521);
        kani::cover!(ok0);
        kani::cover!(!ok0);
        assert!(unsafe { SCRIPT_OK });
        if ok0 {
            assert!(unsafe { EXP_CALLS } == 1);
            // (byte identity of the accepted key is not asserted for P-521: CBMC mis-evaluates this curve's scalar
            // re-serialisation - the same artefact as in nist_sk_from_bytes_p521, see DESIGN.md; the accept/reject decision
            // and the number of candidates drawn are checked)
        } else {
            assert!(unsafe { EXP_CALLS } == 2);

        }
    }
}
