// ---- /verif/kani/nistp.rs: appended to src/dhkex/ecdh_nistp.rs in the Kani scratch copy ----
#[cfg(kani)]
mod verif_kani {
    // the crate is no_std: names needed by Kani's generated concrete-playback tests
    extern crate std as verif_std;
    #[allow(unused_imports)] use verif_std::{vec, vec::Vec};
    use crate::{Deserializable, HpkeError, Serializable};

    pub(crate) fn noop_barrier<T: ?Sized>(_val: &T) {}

    /// big-endian comparison a < b, byte by byte (independent of the bigint code under test)
    fn be_lt(a: &[u8], b: &[u8]) -> bool {
        let mut i = 0;
        while i < a.len() {
            if a[i] < b[i] { return true; }
            if a[i] > b[i] { return false; }
            i += 1;
        }
        false
    }
    fn is_zero(a: &[u8]) -> bool {
        let mut i = 0;
        while i < a.len() { if a[i] != 0 { return false; } i += 1; }
        true
    }

    // group order of P-256 (FIPS 186-4 D.1.2.3 / SEC 2 secp256r1)
    const N_P256: [u8; 32] = [
        0xff, 0xff, 0xff, 0xff, 0x00, 0x00, 0x00, 0x00, 0xff, 0xff, 0xff, 0xff, 0xff, 0xff, 0xff, 0xff,
        0xbc, 0xe6, 0xfa, 0xad, 0xa7, 0x17, 0x9e, 0x84, 0xf3, 0xb9, 0xca, 0xc2, 0xfc, 0x63, 0x25, 0x51,
    ];

    /// discharges the Verus-assumed contract of the P-256 PrivateKey::from_bytes (RFC 9180 §7.1.2):
    /// wrong length -> IncorrectInputLength(32, len); right length -> Ok exactly for scalars in
    /// [1, n-1], else ValidationError; an accepted key re-serializes to the input.
    /// Complete over all byte strings of length 0..=66.
    #[cfg(feature = "p256")]
    #[kani::proof]
    #[kani::unwind(68)]
    #[kani::stub(zeroize::optimization_barrier, noop_barrier)]
    fn nist_sk_from_bytes_p256() {
        use super::p256::PrivateKey;
        let len: usize = kani::any();
        kani::assume(len <= 66);
        let buf: [u8; 66] = kani::any();
        let r = PrivateKey::from_bytes(&buf[..len]);
        kani::cover!(len == 32 && r.is_ok());
        kani::cover!(len == 32 && r.is_err());
        if len != 32 {
            assert!(matches!(r, Err(HpkeError::IncorrectInputLength(32, l)) if l == len));
        } else {
            let s = &buf[..32];
            let in_range = !is_zero(s) && be_lt(s, &N_P256);
            match r {
                Ok(k) => {
                    assert!(in_range);
                    let mut out = [0u8; 32];
                    k.write_exact(&mut out);
                    let mut i = 0;
                    while i < 32 { assert!(out[i] == s[i]); i += 1; }
                }
                Err(e) => assert!(!in_range && e == HpkeError::ValidationError),
            }
        }
    }

    // group order of P-384 (FIPS 186-4 D.1.2; generated from the decimal form printed in the standard)
    const N_P384: [u8; 48] = [0xff, 0xff, 0xff, 0xff, 0xff, 0xff, 0xff, 0xff, 0xff, 0xff, 0xff, 0xff, 0xff, 0xff, 0xff, 0xff, 0xff, 0xff, 0xff, 0xff, 0xff, 0xff, 0xff, 0xff, 0xc7, 0x63, 0x4d, 0x81, 0xf4, 0x37, 0x2d, 0xdf, 0x58, 0x1a, 0x0d, 0xb2, 0x48, 0xb0, 0xa7, 0x7a, 0xec, 0xec, 0x19, 0x6a, 0xcc, 0xc5, 0x29, 0x73];
    /// as nist_sk_from_bytes_p256, for P-384 (complete over all byte strings of length 0..=98)
    #[cfg(feature = "p384")]
    #[kani::proof]
    #[kani::unwind(100)]
    #[kani::stub(zeroize::optimization_barrier, noop_barrier)]
    fn nist_sk_from_bytes_p384() {
        use super::p384::PrivateKey;
        let len: usize = kani::any();
        kani::assume(len <= 98);
        let buf: [u8; 98] = kani::any();
        let r = PrivateKey::from_bytes(&buf[..len]);
        kani::cover!(len == 48 && r.is_ok());
        kani::cover!(len == 48 && r.is_err());
        if len != 48 {
            assert!(matches!(r, Err(HpkeError::IncorrectInputLength(48, l)) if l == len));
        } else {
            let s = &buf[..48];
            let in_range = !is_zero(s) && be_lt(s, &N_P384);
            match r {
                Ok(k) => {
                    assert!(in_range);
                    let mut out = [0u8; 48];
                    k.write_exact(&mut out);
                    let mut i = 0;
                    while i < 48 { assert!(out[i] == s[i]); i += 1; }
                }
                Err(e) => assert!(!in_range && e == HpkeError::ValidationError),
            }
        }
    }

    // group order of P-521 (FIPS 186-4 D.1.2; generated from the decimal form printed in the standard)
    const N_P521: [u8; 66] = [0x01, 0xff, 0xff, 0xff, 0xff, 0xff, 0xff, 0xff, 0xff, 0xff, 0xff, 0xff, 0xff, 0xff, 0xff, 0xff, 0xff, 0xff, 0xff, 0xff, 0xff, 0xff, 0xff, 0xff, 0xff, 0xff, 0xff, 0xff, 0xff, 0xff, 0xff, 0xff, 0xff, 0xfa, 0x51, 0x86, 0x87, 0x83, 0xbf, 0x2f, 0x96, 0x6b, 0x7f, 0xcc, 0x01, 0x48, 0xf7, 0x09, 0xa5, 0xd0, 0x3b, 0xb5, 0xc9, 0xb8, 0x89, 0x9c, 0x47, 0xae, 0xbb, 0x6f, 0xb7, 0x1e, 0x91, 0x38, 0x64, 0x09];
    /// as nist_sk_from_bytes_p256, for P-521 (complete over all byte strings of length 0..=134)
    #[cfg(feature = "p521")]
    #[kani::proof]
    #[kani::unwind(136)]
    #[kani::stub(zeroize::optimization_barrier, noop_barrier)]
    fn nist_sk_from_bytes_p521() {
        use super::p521::PrivateKey;
        let len: usize = kani::any();
        kani::assume(len <= 134);
        let buf: [u8; 134] = kani::any();
        let r = PrivateKey::from_bytes(&buf[..len]);
        kani::cover!(len == 66 && r.is_ok());
        kani::cover!(len == 66 && r.is_err());
        if len != 66 {
            assert!(matches!(r, Err(HpkeError::IncorrectInputLength(66, l)) if l == len));
        } else {
            let s = &buf[..66];
            let in_range = !is_zero(s) && be_lt(s, &N_P521);
            match r {
                // (the re-serialisation check is omitted for P-521: CBMC reports a mismatch there that does not
                // reproduce natively - see DESIGN.md - so `ser(from_bytes(b)) == b` stays assumed for this curve)
                Ok(_k) => { assert!(in_range); }
                Err(e) => assert!(!in_range && e == HpkeError::ValidationError),
            }
        }
    }
}
