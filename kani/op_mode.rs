// ---- /verif/kani/op_mode.rs: appended to src/op_mode.rs in the Kani scratch copy ----
#[cfg(kani)]
mod verif_kani {
    extern crate std as verif_std;
    #[allow(unused_imports)] use verif_std::{vec, vec::Vec};
    use super::*;
    type K = crate::kem::X25519HkdfSha256;
    /// twin of the Verus contracts of PskBundle::new and the mode getters (byte strings of length 0..=3: BOUNDED, used as a
    /// counterexample source only): Ok <=> (psk empty <=> psk_id empty), else InvalidPskBundle; getters per RFC 9180 Table 1
    #[kani::proof]
    #[kani::unwind(6)]
    fn psk_bundle_and_modes_bounded() {
        let (a, b): ([u8; 3], [u8; 3]) = (kani::any(), kani::any());
        let (la, lb): (usize, usize) = (kani::any(), kani::any());
        kani::assume(la <= 3 && lb <= 3);
        let r = PskBundle::new(&a[..la], &b[..lb]);
        kani::cover!(la == 1 && lb == 0);
        kani::cover!(la == 0 && lb == 0);
        if (la == 0) == (lb == 0) {
            let bundle = r.unwrap();
            assert!(bundle.psk == &a[..la] && bundle.psk_id == &b[..lb]);
            let m: OpModeR<'_, K> = OpModeR::Psk(bundle);
            assert!(OpMode::<K>::mode_id(&m) == 0x01 && OpMode::<K>::get_psk_bytes(&m) == &a[..la] && OpMode::<K>::get_psk_id(&m) == &b[..lb]);
            let s: OpModeS<'_, K> = OpModeS::Psk(bundle);
            assert!(OpMode::<K>::mode_id(&s) == 0x01 && OpMode::<K>::get_psk_bytes(&s) == &a[..la] && OpMode::<K>::get_psk_id(&s) == &b[..lb]);
        } else {
            assert!(matches!(r, Err(HpkeError::InvalidPskBundle)));
        }
        let base_r: OpModeR<'_, K> = OpModeR::Base;
        let base_s: OpModeS<'_, K> = OpModeS::Base;
        assert!(OpMode::<K>::mode_id(&base_r) == 0x00 && OpMode::<K>::get_psk_bytes(&base_r).is_empty() && OpMode::<K>::get_psk_id(&base_r).is_empty());
        assert!(OpMode::<K>::mode_id(&base_s) == 0x00 && OpMode::<K>::get_psk_bytes(&base_s).is_empty() && OpMode::<K>::get_psk_id(&base_s).is_empty());
    }
}
