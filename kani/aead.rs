// ---- /verif/kani/aead.rs: appended to src/aead.rs in the Kani scratch copy (never part of /repo) ----
#[cfg(kani)]
pub(crate) mod verif_kani {
    // the crate is no_std: names needed by Kani's generated concrete-playback tests
    extern crate std as verif_std;
    #[allow(unused_imports)] use verif_std::{vec, vec::Vec};
    use super::*;
    use crate::kdf::HkdfSha256;
    use generic_array::typenum::{self, Unsigned};

    /// zeroize's optimisation barrier is inline asm (a semantic no-op); Kani cannot model asm
    pub(crate) fn noop_barrier<T: ?Sized>(_val: &T) {}

    // ------------------------------------------------------------------ §5.2 IncrementSeq
    /// discharges the Verus-assumed contract of increment_seq over all 2^64 counter values
    #[kani::proof]
    #[kani::stub(zeroize::optimization_barrier, noop_barrier)]
    fn increment_seq_full() {
        let n: u64 = kani::any();
        let r = increment_seq(&Seq(n));
        kani::cover!(n == u64::MAX);
        kani::cover!(n == 0xff);
        match r {
            None => assert!(n == u64::MAX),
            Some(s) => assert!(n != u64::MAX && s.0 == n + 1),
        }
    }

    /// Kani function contract on the real increment_seq (spliced `kani::ensures`, see tools/kani_run.py KANI_CONTRACTS),
    /// proved here for all inputs; the state-machine harnesses below then use the CONTRACT instead of the body
    /// (`stub_verified`): a caller is checked against the callee's contract, not its body
    #[kani::proof_for_contract(increment_seq)]
    #[kani::stub(zeroize::optimization_barrier, noop_barrier)]
    fn increment_seq_contract() {
        let s = Seq(kani::any());
        let _ = increment_seq(&s);
    }
    impl kani::Arbitrary for Seq {
        fn any() -> Self { Seq(kani::any()) }
    }

    /// discharges the assumed value of the derived Default for the sequence counter
    #[kani::proof]
    #[kani::stub(zeroize::optimization_barrier, noop_barrier)]
    fn seq_default_is_zero() {
        assert!(<Seq as Default>::default().0 == 0);
    }

    // ------------------------------------------------------------------ §5.2 ComputeNonce
    fn i2osp_byte(n: u64, len: usize, i: usize) -> u8 {
        // byte i (big-endian, 0 = most significant) of I2OSP(n, len), len >= 8
        let from_right = len - 1 - i;
        if from_right >= 8 { 0 } else {
            let mut d: u64 = 1;
            let mut k = 0;
            while k < from_right { d = d.wrapping_mul(256); k += 1; }
            ((n / d) % 256) as u8
        }
    }

    fn check_mix_nonce<A: Aead>() {
        let mut base = AeadNonce::<A>::default();
        let nn = base.0.len();
        let mut i = 0;
        while i < nn { base.0[i] = kani::any(); i += 1; }
        let seq: u64 = kani::any();
        let out = mix_nonce::<A>(&base, &Seq(seq));
        assert!(out.0.len() == nn);
        let mut i = 0;
        while i < nn {
            assert!(out.0[i] == base.0[i] ^ i2osp_byte(seq, nn, i));
            i += 1;
        }
    }
    /// discharges the Verus-assumed contract of mix_nonce for the Nn = 12 AEADs: all 2^64 x 2^96 inputs
    #[kani::proof]
    #[kani::stub(zeroize::optimization_barrier, noop_barrier)]
    #[kani::unwind(14)]
    fn mix_nonce_full_aes128() { check_mix_nonce::<AesGcm128>(); }
    #[kani::proof]
    #[kani::stub(zeroize::optimization_barrier, noop_barrier)]
    #[kani::unwind(14)]
    fn mix_nonce_full_aes256() { check_mix_nonce::<AesGcm256>(); }
    #[kani::proof]
    #[kani::stub(zeroize::optimization_barrier, noop_barrier)]
    #[kani::unwind(14)]
    fn mix_nonce_full_chacha() { check_mix_nonce::<ChaCha20Poly1305>(); }

    // ------------------------------------------------------------------ a model AEAD
    // seal_in_place_detached / open_in_place_detached / seal / open are parametric in the AEAD, so
    // running the REAL function bodies against this recording AEAD is sound for every AEAD.
    #[derive(Clone)]
    pub struct ModelImpl;
    pub(crate) fn model_reset(fail: bool) { unsafe { FAIL = fail; CALLS = 0; LAST_NONCE = [0; 12]; LAST_AAD = (core::ptr::null(), 0); } }
    /// (address, length) of the associated data the AEAD was last called with
    pub(crate) fn model_last_aad() -> (*const u8, usize) { unsafe { LAST_AAD } }
    static mut LAST_AAD: (*const u8, usize) = (core::ptr::null(), 0);
    /// associated data for the state-machine harnesses: any prefix of this block, so lengths up to 70000 are covered
    /// (the model AEAD never reads the bytes; identity of the slice handed to the AEAD is checked by address and length)
    static BIG_AAD: [u8; 70000] = [0u8; 70000];
    pub(crate) fn model_calls() -> u32 { unsafe { CALLS } }
    pub(crate) fn model_last_nonce() -> [u8; 12] { unsafe { LAST_NONCE } }
    static mut LAST_NONCE: [u8; 12] = [0; 12];
    static mut CALLS: u32 = 0;
    static mut FAIL: bool = false;
    impl BaseAeadCore for ModelImpl {
        type NonceSize = typenum::U12;
        type TagSize = typenum::U16;
        type CiphertextOverhead = typenum::U0;
    }
    impl aead::KeySizeUser for ModelImpl { type KeySize = typenum::U16; }
    impl BaseKeyInit for ModelImpl { fn new(_: &aead::Key<Self>) -> Self { ModelImpl } }
    impl BaseAeadInPlace for ModelImpl {
        fn encrypt_in_place_detached(&self, nonce: &aead::Nonce<Self>, _aad: &[u8], buf: &mut [u8]) -> Result<aead::Tag<Self>, aead::Error> {
            unsafe {
                CALLS += 1;
                LAST_AAD = (_aad.as_ptr(), _aad.len());
                let mut i = 0;
                while i < 12 { LAST_NONCE[i] = nonce[i]; i += 1; }
                if FAIL { return Err(aead::Error); }
            }
            // "ciphertext" = plaintext + 1 bytewise, tag = 0xA5 repeated
            let mut i = 0;
            while i < buf.len() { buf[i] = buf[i].wrapping_add(1); i += 1; }
            let mut t = aead::Tag::<Self>::default();
            let mut i = 0;
            while i < 16 { t[i] = 0xA5; i += 1; }
            Ok(t)
        }
        fn decrypt_in_place_detached(&self, nonce: &aead::Nonce<Self>, _aad: &[u8], buf: &mut [u8], tag: &aead::Tag<Self>) -> Result<(), aead::Error> {
            unsafe {
                CALLS += 1;
                LAST_AAD = (_aad.as_ptr(), _aad.len());
                let mut i = 0;
                while i < 12 { LAST_NONCE[i] = nonce[i]; i += 1; }
                if FAIL { return Err(aead::Error); }
            }
            let mut i = 0;
            while i < 16 { if tag[i] != 0xA5 { return Err(aead::Error); } i += 1; }
            let mut i = 0;
            while i < buf.len() { buf[i] = buf[i].wrapping_sub(1); i += 1; }
            Ok(())
        }
    }
    pub struct ModelAead;
    impl Aead for ModelAead {
        type AeadImpl = ModelImpl;
        const AEAD_ID: u16 = 0x7777;
    }
    type K = crate::kem::X25519HkdfSha256;

    fn any_ctx<A: Aead>(enc: A::AeadImpl) -> AeadCtx<A, HkdfSha256, K> { any_ctx2::<A>(enc, true) }
    fn any_ctx2<A: Aead>(enc: A::AeadImpl, symbolic_nonce: bool) -> AeadCtx<A, HkdfSha256, K> {
        let mut base = AeadNonce::<A>::default();
        let nn = base.0.len();
        if symbolic_nonce {
            let mut i = 0;
            while i < nn { base.0[i] = kani::any(); i += 1; }
        }
        // built by the crate's own constructor, then the two state fields are made symbolic (a struct literal here would stop
        // compiling as soon as a change adds a field)
        let mut c = AeadCtx::<A, HkdfSha256, K>::new(&AeadKey::<A>::default(), base, <ExporterSecret<HkdfSha256> as Default>::default());
        let _ = enc;
        c.overflowed = kani::any();
        c.seq = Seq(kani::any());
        c
    }

    /// the real seal_in_place_detached over ALL (seq, overflowed, base_nonce, AEAD success/failure):
    /// nonce handed to the AEAD, counter step, latch, refusal leaves buffer and state untouched
    #[kani::proof]
    #[kani::stub(zeroize::optimization_barrier, noop_barrier)]
    #[kani::unwind(34)]
    #[kani::stub_verified(increment_seq)]
    fn seal_state_machine_model() {
        let mut ctx: AeadCtxS<ModelAead, HkdfSha256, K> = any_ctx::<ModelAead>(ModelImpl).into();
        let seq0 = ctx.0.seq.0;
        let ov0 = ctx.0.overflowed;
        let mut base0 = [0u8; 12];
        let mut i = 0;
        while i < 12 { base0[i] = ctx.0.base_nonce.0[i]; i += 1; }
        let fail: bool = kani::any();
        unsafe { FAIL = fail; CALLS = 0; }
        let mut pt = [7u8, 9u8, 11u8];
        let alen: usize = kani::any();
        kani::assume(alen <= 70000);
        let aad = &BIG_AAD[..alen];
        let r = ctx.seal_in_place_detached(&mut pt, aad);
        kani::cover!(alen == 70000 && !ov0);
        kani::cover!(seq0 == u64::MAX && !ov0 && !fail);
        kani::cover!(ov0);
        if ov0 {
            assert!(r.is_err() && r.err() == Some(HpkeError::MessageLimitReached));
            assert!(pt == [7u8, 9u8, 11u8]);
            assert!(unsafe { CALLS } == 0);
            assert!(ctx.0.seq.0 == seq0 && ctx.0.overflowed);
        } else {
            assert!(unsafe { CALLS } == 1);
            // the AEAD is given exactly the caller's associated data (C06: all of it is authenticated)
            assert!(model_last_aad() == (aad.as_ptr(), alen));
            let mut i = 0;
            while i < 12 {
                assert!(unsafe { LAST_NONCE[i] } == base0[i] ^ i2osp_byte(seq0, 12, i));
                i += 1;
            }
            if fail {
                assert!(r.err() == Some(HpkeError::SealError));
                assert!(ctx.0.seq.0 == seq0 && !ctx.0.overflowed);
            } else {
                assert!(r.is_ok());
                assert!(pt == [8u8, 10u8, 12u8]);
                if seq0 == u64::MAX { assert!(ctx.0.overflowed && ctx.0.seq.0 == seq0); }
                else { assert!(!ctx.0.overflowed && ctx.0.seq.0 == seq0 + 1); }
            }
        }
        let mut i = 0;
        while i < 12 { assert!(ctx.0.base_nonce.0[i] == base0[i]); i += 1; }
        core::mem::forget(ctx);
    }

    /// the real open_in_place_detached over ALL (seq, overflowed, base_nonce, tag ok / bad)
    #[kani::proof]
    #[kani::stub(zeroize::optimization_barrier, noop_barrier)]
    #[kani::unwind(34)]
    #[kani::stub_verified(increment_seq)]
    fn open_state_machine_model() {
        let mut ctx: AeadCtxR<ModelAead, HkdfSha256, K> = any_ctx::<ModelAead>(ModelImpl).into();
        let seq0 = ctx.0.seq.0;
        let ov0 = ctx.0.overflowed;
        let mut base0 = [0u8; 12];
        let mut i = 0;
        while i < 12 { base0[i] = ctx.0.base_nonce.0[i]; i += 1; }
        unsafe { FAIL = false; CALLS = 0; }
        let mut tag = AeadTag::<ModelAead>::default();
        let good: bool = kani::any();
        let mut i = 0;
        while i < 16 { tag.0[i] = if good { 0xA5 } else { 0x00 }; i += 1; }
        let mut ct = [8u8, 10u8];
        let alen: usize = kani::any();
        kani::assume(alen <= 70000);
        let aad = &BIG_AAD[..alen];
        let r = ctx.open_in_place_detached(&mut ct, aad, &tag);
        kani::cover!(alen == 70000 && !ov0 && good);
        if !ov0 { assert!(unsafe { CALLS } == 1 && model_last_aad() == (aad.as_ptr(), alen)); }
        kani::cover!(seq0 == u64::MAX && !ov0 && good);
        if ov0 {
            assert!(r.err() == Some(HpkeError::MessageLimitReached));
            assert!(ct == [8u8, 10u8] && unsafe { CALLS } == 0 && ctx.0.seq.0 == seq0 && ctx.0.overflowed);
        } else if !good {
            assert!(r.err() == Some(HpkeError::OpenError));
            assert!(ctx.0.seq.0 == seq0 && !ctx.0.overflowed);
        } else {
            assert!(r.is_ok() && ct == [7u8, 9u8]);
            let mut i = 0;
            while i < 12 {
                assert!(unsafe { LAST_NONCE[i] } == base0[i] ^ i2osp_byte(seq0, 12, i));
                i += 1;
            }
            if seq0 == u64::MAX { assert!(ctx.0.overflowed && ctx.0.seq.0 == seq0); }
            else { assert!(!ctx.0.overflowed && ctx.0.seq.0 == seq0 + 1); }
        }
        core::mem::forget(ctx);
    }

    /// BOUNDED stand-in for the allocating seal (its body is outside Verus): |pt| <= 4.
    /// seal == in-place ciphertext || detached tag, length |pt| + Nt, same state step.
    #[cfg(any(feature = "alloc", feature = "std"))]
    #[kani::proof]
    #[kani::stub(zeroize::optimization_barrier, noop_barrier)]
    #[kani::unwind(34)]
    fn seal_alloc_bounded() {
        let mut ctx: AeadCtxS<ModelAead, HkdfSha256, K> = any_ctx::<ModelAead>(ModelImpl).into();
        let seq0 = ctx.0.seq.0;
        let ov0 = ctx.0.overflowed;
        let fail: bool = kani::any();
        unsafe { FAIL = fail; CALLS = 0; }
        let len: usize = kani::any();
        kani::assume(len <= 4);
        let ptbuf: [u8; 4] = kani::any();
        let r = ctx.seal(&ptbuf[..len], b"");
        kani::cover!(len == 4 && !ov0 && !fail);
        kani::cover!(len == 0 && !ov0 && !fail);
        if ov0 {
            assert!(r.err() == Some(HpkeError::MessageLimitReached) && ctx.0.seq.0 == seq0 && ctx.0.overflowed);
        } else if fail {
            assert!(r.err() == Some(HpkeError::SealError) && ctx.0.seq.0 == seq0 && !ctx.0.overflowed);
        } else {
            let v = r.unwrap();
            assert!(v.len() == len + 16);
            let mut i = 0;
            while i < len { assert!(v[i] == ptbuf[i].wrapping_add(1)); i += 1; }
            let mut i = 0;
            while i < 16 { assert!(v[len + i] == 0xA5); i += 1; }
            if seq0 == u64::MAX { assert!(ctx.0.overflowed); } else { assert!(ctx.0.seq.0 == seq0 + 1 && !ctx.0.overflowed); }
        }
        core::mem::forget(ctx);
    }

    fn ctx_from(seq: u64, ov: bool, base: &[u8; 12]) -> AeadCtx<ModelAead, HkdfSha256, K> {
        let mut b = AeadNonce::<ModelAead>::default();
        let mut i = 0;
        while i < 12 { b.0[i] = base[i]; i += 1; }
        let mut c = AeadCtx::<ModelAead, HkdfSha256, K>::new(&AeadKey::<ModelAead>::default(), b, <ExporterSecret<HkdfSha256> as Default>::default());
        c.overflowed = ov;
        c.seq = Seq(seq);
        c
    }

    /// C14, RELATIONAL (BOUNDED: |pt| <= 4): from the same context state (all seq, overflowed, base_nonce; AEAD succeeding or
    /// failing) the allocating seal and seal_in_place_detached agree: same Ok/Err and error, output = in-place ciphertext || tag,
    /// same state afterwards.  Nothing here refers to the RFC: a deviation common to both forms is not this harness's business.
    #[cfg(any(feature = "alloc", feature = "std"))]
    #[kani::proof]
    #[kani::stub(zeroize::optimization_barrier, noop_barrier)]
    #[kani::unwind(34)]
    fn seal_forms_agree_bounded() {
        let seq0: u64 = kani::any();
        let ov0: bool = kani::any();
        let base: [u8; 12] = kani::any();
        let mut c1: AeadCtxS<ModelAead, HkdfSha256, K> = ctx_from(seq0, ov0, &base).into();
        let mut c2: AeadCtxS<ModelAead, HkdfSha256, K> = ctx_from(seq0, ov0, &base).into();
        let fail: bool = kani::any();
        model_reset(fail);
        let len: usize = kani::any();
        kani::assume(len <= 4);
        let ptbuf: [u8; 4] = kani::any();
        let r1 = c1.seal(&ptbuf[..len], b"aad");
        let n1 = model_last_nonce();
        let mut buf2 = ptbuf;
        let r2 = c2.seal_in_place_detached(&mut buf2[..len], b"aad");
        let n2 = model_last_nonce();
        kani::cover!(ov0);
        kani::cover!(!ov0 && !fail && len == 4);
        kani::cover!(!ov0 && seq0 == u64::MAX);
        match (r1, r2) {
            (Ok(v), Ok(tag)) => {
                assert!(v.len() == len + 16);
                let mut i = 0;
                while i < len { assert!(v[i] == buf2[i]); i += 1; }
                let mut i = 0;
                while i < 16 { assert!(v[len + i] == tag.0[i]); i += 1; }
                assert!(n1 == n2);
            }
            (Err(e1), Err(e2)) => assert!(e1 == e2),
            _ => assert!(false),
        }
        assert!(c1.0.seq.0 == c2.0.seq.0 && c1.0.overflowed == c2.0.overflowed);
        core::mem::forget(c1); core::mem::forget(c2);
    }

    /// C14, RELATIONAL (BOUNDED: |ct||tag| <= 20): open vs open_in_place_detached from the same state on the same bytes
    #[cfg(any(feature = "alloc", feature = "std"))]
    #[kani::proof]
    #[kani::stub(zeroize::optimization_barrier, noop_barrier)]
    #[kani::unwind(34)]
    fn open_forms_agree_bounded() {
        let seq0: u64 = kani::any();
        let ov0: bool = kani::any();
        let base: [u8; 12] = kani::any();
        let mut c1: AeadCtxR<ModelAead, HkdfSha256, K> = ctx_from(seq0, ov0, &base).into();
        let mut c2: AeadCtxR<ModelAead, HkdfSha256, K> = ctx_from(seq0, ov0, &base).into();
        model_reset(false);
        let len: usize = kani::any();
        kani::assume(len >= 16 && len <= 20);
        let buf: [u8; 20] = kani::any();
        let r1 = c1.open(&buf[..len], b"aad");
        let n1 = model_last_nonce();
        let mut ct2 = [0u8; 4];
        let mut i = 0;
        while i < len - 16 { ct2[i] = buf[i]; i += 1; }
        let mut tag = AeadTag::<ModelAead>::default();
        let mut i = 0;
        while i < 16 { tag.0[i] = buf[len - 16 + i]; i += 1; }
        let r2 = c2.open_in_place_detached(&mut ct2[..len - 16], b"aad", &tag);
        let n2 = model_last_nonce();
        kani::cover!(ov0);
        kani::cover!(!ov0 && r1.is_ok() && len == 20);
        kani::cover!(!ov0 && r1.is_err());
        match (r1, r2) {
            (Ok(v), Ok(())) => {
                assert!(v.len() == len - 16);
                let mut i = 0;
                while i < len - 16 { assert!(v[i] == ct2[i]); i += 1; }
                assert!(n1 == n2);
            }
            (Err(e1), Err(e2)) => assert!(e1 == e2),
            _ => assert!(false),
        }
        assert!(c1.0.seq.0 == c2.0.seq.0 && c1.0.overflowed == c2.0.overflowed);
        core::mem::forget(c1); core::mem::forget(c2);
    }

    // ------------------------------------------------------------------ AeadTag (de)serialization
    /// discharges the Verus-assumed contract of AeadTag::write_exact (exact-length copy of the tag bytes)
    #[kani::proof]
    #[kani::stub(zeroize::optimization_barrier, noop_barrier)]
    #[kani::unwind(18)]
    fn write_exact_tag_copies() {
        let mut tag = AeadTag::<ChaCha20Poly1305>::default();
        let mut i = 0;
        while i < 16 { tag.0[i] = kani::any(); i += 1; }
        let mut out = [0u8; 16];
        tag.write_exact(&mut out);
        let mut i = 0;
        while i < 16 { assert!(out[i] == tag.0[i]); i += 1; }
        assert!(AeadTag::<ChaCha20Poly1305>::size() == 16);
        assert!(AeadTag::<AesGcm128>::size() == 16 && AeadTag::<AesGcm256>::size() == 16 && AeadTag::<ExportOnlyAead>::size() == 0);
    }
    /// C12: writing into a caller buffer panics exactly when its length differs (range 0..=2*size+2).
    /// `should_panic` alone only demands SOME panicking path; the sentinel cover after the call must in addition be
    /// unreachable (tools/kani_run.py `must_not_return`), so EVERY wrong length panics.
    #[kani::proof]
    #[kani::stub(zeroize::optimization_barrier, noop_barrier)]
    #[kani::unwind(36)]
    #[kani::should_panic]
    fn write_exact_tag_wrong_len_panics() {
        let tag = AeadTag::<AesGcm128>::default();
        let len: usize = kani::any();
        kani::assume(len <= 34 && len != 16);
        let mut out = [0u8; 34];
        tag.write_exact(&mut out[..len]);
        kani::cover!(true, "VERIF_RETURNED");
    }
    /// as above for the zero-length tag of the export-only AEAD (buffer lengths 1..=2)
    #[kani::proof]
    #[kani::stub(zeroize::optimization_barrier, noop_barrier)]
    #[kani::unwind(4)]
    #[kani::should_panic]
    fn write_exact_tag_exportonly_wrong_len_panics() {
        let tag = AeadTag::<ExportOnlyAead>::default();
        let len: usize = kani::any();
        kani::assume(len >= 1 && len <= 2);
        let mut out = [0u8; 2];
        tag.write_exact(&mut out[..len]);
        kani::cover!(true, "VERIF_RETURNED");
    }

    // ------------------------------------------------------------------ C11 / C18 / C13: export
    // The real export -> LabeledExpand::labeled_expand bodies, with HKDF itself scripted (it is a dependency): the stand-in
    // for Hkdf::expand_multi_info checks what it is handed - [I2OSP(L, 2), "HPKE-v1", suite_id, "sec", exporter_context], the
    // exporter context being the caller's slice itself (address and length) - and answers like HKDF-Expand: Err iff L > 255*Nh.
    static mut EXP_INFO_OK: bool = true;
    static mut EXP_CTX: (*const u8, usize) = (core::ptr::null(), 0);
    static mut EXP_CALLS: u32 = 0;
    static mut EXP_OUT: [u8; 70000] = [0u8; 70000];
    fn from_prk_script<H, I>(_prk: &[u8]) -> Result<hkdf::Hkdf<H, I>, hkdf::InvalidPrkLength>
    where H: digest::OutputSizeUser, I: hkdf::HmacImpl<H>,
    {
        // never read (expand_multi_info is scripted); a real one would run SHA-2, whose CPU-feature probe is inline asm
        Ok(unsafe { core::mem::MaybeUninit::<hkdf::Hkdf<H, I>>::zeroed().assume_init() })
    }
    fn emi_export<H, I>(_h: &hkdf::Hkdf<H, I>, infos: &[&[u8]], okm: &mut [u8]) -> Result<(), hkdf::InvalidLength>
    where H: digest::OutputSizeUser, I: hkdf::HmacImpl<H>,
    {
        let l = okm.len();
        unsafe {
            EXP_CALLS += 1;
            let ok = infos.len() == 5
                && infos[0].len() == 2 && infos[0][0] == (l >> 8) as u8 && infos[0][1] == (l & 0xff) as u8
                && infos[1].len() == 7 && infos[1][0] == b'H' && infos[1][6] == b'1'
                && infos[2].len() == 10
                && infos[3].len() == 3 && infos[3][0] == b's' && infos[3][1] == b'e' && infos[3][2] == b'c'
                && (infos[4].as_ptr(), infos[4].len()) == EXP_CTX;
            if !ok { EXP_INFO_OK = false; }
        }
        if l > 255 * 32 { Err(hkdf::InvalidLength) } else { Ok(()) }
    }
    /// export over ALL exporter-context lengths and output lengths up to 70000 (so 255*Nh = 8160 and 2^16 are interior points),
    /// twice on the same context: the result depends on L alone (Ok iff L <= 255*Nh, else KdfOutputTooLong, never a panic),
    /// the second call is not influenced by the first (no hidden state), the whole exporter context reaches HKDF, the
    /// context's sequence state is untouched
    #[kani::proof]
    #[kani::unwind(34)]
    #[kani::stub(zeroize::optimization_barrier, noop_barrier)]
    #[kani::stub(hkdf::Hkdf::from_prk, from_prk_script)]
    #[kani::stub(hkdf::Hkdf::expand_multi_info, emi_export)]
    fn export_limit_and_history() {
        let ctx: AeadCtxR<ModelAead, HkdfSha256, K> = any_ctx2::<ModelAead>(ModelImpl, false).into();
        let (seq0, ov0) = (ctx.0.seq.0, ctx.0.overflowed);
        let clen: usize = kani::any();
        kani::assume(clen <= 70000);
        let ectx = &BIG_AAD[..clen];
        unsafe { EXP_CTX = (ectx.as_ptr(), clen); EXP_INFO_OK = true; EXP_CALLS = 0; }
        let l1: usize = kani::any();
        let l2: usize = kani::any();
        kani::assume(l1 <= 70000 && l2 <= 70000);
        let r1 = ctx.export(ectx, unsafe { &mut EXP_OUT[..l1] });
        let r2 = ctx.export(ectx, unsafe { &mut EXP_OUT[..l2] });
        kani::cover!(l1 == 8160 && l2 == 8161);
        kani::cover!(l1 == 65536 && clen == 70000);
        assert!(r1 == if l1 <= 8160 { Ok(()) } else { Err(HpkeError::KdfOutputTooLong) });
        assert!(r2 == if l2 <= 8160 { Ok(()) } else { Err(HpkeError::KdfOutputTooLong) });
        assert!(unsafe { EXP_INFO_OK });
        assert!(ctx.0.seq.0 == seq0 && ctx.0.overflowed == ov0);
        core::mem::forget(ctx);
    }

    // ------------------------------------------------------------------ export-only suite
    /// C11: with the export-only AEAD, seal never returns (the documented panic is the only outcome)
    #[kani::proof]
    #[kani::stub(zeroize::optimization_barrier, noop_barrier)]
    #[kani::unwind(130)]
    #[kani::should_panic]
    fn export_only_seal_panics() {
        let mut ctx: AeadCtxS<ExportOnlyAead, HkdfSha256, K> = any_ctx2::<ExportOnlyAead>(crate::aead::export_only::EmptyAeadImpl, false).into();
        ctx.0.overflowed = false;
        let mut pt = [1u8, 2u8];
        let _ = ctx.seal_in_place_detached(&mut pt, b"");
        kani::cover!(true, "VERIF_RETURNED");
    }
    #[kani::proof]
    #[kani::stub(zeroize::optimization_barrier, noop_barrier)]
    #[kani::unwind(130)]
    #[kani::should_panic]
    fn export_only_open_panics() {
        let mut ctx: AeadCtxR<ExportOnlyAead, HkdfSha256, K> = any_ctx2::<ExportOnlyAead>(crate::aead::export_only::EmptyAeadImpl, false).into();
        ctx.0.overflowed = false;
        let mut ct = [1u8, 2u8];
        let tag = AeadTag::<ExportOnlyAead>::default();
        let _ = ctx.open_in_place_detached(&mut ct, b"", &tag);
        kani::cover!(true, "VERIF_RETURNED");
    }

    // ------------------------------------------------------------------ C16: wiped on drop
    fn check_key_wiped<A: Aead>() {
        use core::mem::MaybeUninit;
        let mut slot: MaybeUninit<AeadKey<A>> = MaybeUninit::uninit();
        let mut k = AeadKey::<A>::default();
        let n = k.0.len();
        let mut i = 0;
        while i < n { k.0[i] = kani::any(); i += 1; }
        slot.write(k);
        let p = slot.as_mut_ptr();
        unsafe {
            core::ptr::drop_in_place(p);
            let bytes = p as *const u8;
            let mut i = 0;
            while i < n { assert!(*bytes.add(i) == 0); i += 1; }
        }
        assert!(core::mem::size_of::<AeadKey<A>>() == n);
    }
    fn check_nonce_wiped<A: Aead>() {
        use core::mem::MaybeUninit;
        let mut slot: MaybeUninit<AeadNonce<A>> = MaybeUninit::uninit();
        let mut k = AeadNonce::<A>::default();
        let n = k.0.len();
        let mut i = 0;
        while i < n { k.0[i] = kani::any(); i += 1; }
        slot.write(k);
        let p = slot.as_mut_ptr();
        unsafe {
            core::ptr::drop_in_place(p);
            let bytes = p as *const u8;
            let mut i = 0;
            while i < n { assert!(*bytes.add(i) == 0); i += 1; }
        }
        assert!(core::mem::size_of::<AeadNonce<A>>() == n);
    }
    #[kani::proof]
    #[kani::stub(zeroize::optimization_barrier, noop_barrier)] #[kani::unwind(34)] fn drop_wipes_key_aes128() { check_key_wiped::<AesGcm128>(); }
    #[kani::proof]
    #[kani::stub(zeroize::optimization_barrier, noop_barrier)] #[kani::unwind(34)] fn drop_wipes_key_aes256() { check_key_wiped::<AesGcm256>(); }
    #[kani::proof]
    #[kani::stub(zeroize::optimization_barrier, noop_barrier)] #[kani::unwind(34)] fn drop_wipes_key_chacha() { check_key_wiped::<ChaCha20Poly1305>(); }
    #[kani::proof]
    #[kani::stub(zeroize::optimization_barrier, noop_barrier)] #[kani::unwind(14)] fn drop_wipes_nonce_aes128() { check_nonce_wiped::<AesGcm128>(); }
    #[kani::proof]
    #[kani::stub(zeroize::optimization_barrier, noop_barrier)] #[kani::unwind(14)] fn drop_wipes_nonce_aes256() { check_nonce_wiped::<AesGcm256>(); }
    #[kani::proof]
    #[kani::stub(zeroize::optimization_barrier, noop_barrier)] #[kani::unwind(14)] fn drop_wipes_nonce_chacha() { check_nonce_wiped::<ChaCha20Poly1305>(); }
    #[kani::proof]
    #[kani::stub(zeroize::optimization_barrier, noop_barrier)] #[kani::unwind(130)] fn drop_wipes_nonce_exportonly() { check_nonce_wiped::<ExportOnlyAead>(); }

    /// dropping a whole context wipes its base nonce and exporter secret (addresses taken before the drop)
    #[kani::proof]
    #[kani::stub(zeroize::optimization_barrier, noop_barrier)]
    #[kani::unwind(34)]
    fn drop_wipes_ctx_fields() {
        use core::mem::{size_of, MaybeUninit};
        // the obligation below names the two secret fields the context has today; if the context grows (a new field that could
        // hold a copy of either secret) it has to be restated, which no harness can do by itself: no verdict in that case
        let known = size_of::<bool>() + size_of::<ModelImpl>() + size_of::<AeadNonce<ModelAead>>() + size_of::<ExporterSecret<HkdfSha256>>()
            + size_of::<Seq>() + 10;
        if size_of::<AeadCtx<ModelAead, HkdfSha256, K>>() > (known + 7) / 8 * 8 {
            assert!(false, "VERIF_UNDECIDED the encryption context has grown a field: restate the wipe-on-drop obligation for it");
            return;
        }
        let mut ctx = any_ctx::<ModelAead>(ModelImpl);
        let mut i = 0;
        while i < 32 { ctx.exporter_secret.0[i] = kani::any(); i += 1; }
        // a context that has been USED: one seal attempt before it is dropped
        let used: bool = kani::any();
        let mut ctx: AeadCtxS<ModelAead, HkdfSha256, K> = ctx.into();
        if used { model_reset(false); let mut pt = [1u8, 2u8]; let _ = ctx.seal_in_place_detached(&mut pt, b"a"); }
        let ctx = ctx.0;
        let mut slot: MaybeUninit<AeadCtxS<ModelAead, HkdfSha256, K>> = MaybeUninit::uninit();
        slot.write(ctx.into());
        let p = slot.as_mut_ptr();
        unsafe {
            let nonce_p = (*p).0.base_nonce.0.as_ptr();
            let exp_p = (*p).0.exporter_secret.0.as_ptr();
            core::ptr::drop_in_place(p);
            let mut i = 0;
            while i < 12 { assert!(*nonce_p.add(i) == 0); i += 1; }
            let mut i = 0;
            while i < 32 { assert!(*exp_p.add(i) == 0); i += 1; }
        }
    }

    // ------------------------------------------------------------------ identifiers and sizes (RFC 9180 §7.3)
    #[kani::proof]
    #[kani::stub(zeroize::optimization_barrier, noop_barrier)]
    fn aead_ids_and_sizes_table() {
        use aead::KeySizeUser;
        assert!(<AesGcm128 as Aead>::AEAD_ID == 0x0001);
        assert!(<AesGcm256 as Aead>::AEAD_ID == 0x0002);
        assert!(<ChaCha20Poly1305 as Aead>::AEAD_ID == 0x0003);
        assert!(<ExportOnlyAead as Aead>::AEAD_ID == 0xFFFF);
        // Nk, Nn, Nt
        assert!(<<AesGcm128 as Aead>::AeadImpl as KeySizeUser>::KeySize::USIZE == 16);
        assert!(<<AesGcm256 as Aead>::AeadImpl as KeySizeUser>::KeySize::USIZE == 32);
        assert!(<<ChaCha20Poly1305 as Aead>::AeadImpl as KeySizeUser>::KeySize::USIZE == 32);
        assert!(<<ExportOnlyAead as Aead>::AeadImpl as KeySizeUser>::KeySize::USIZE == 0);
        assert!(<<AesGcm128 as Aead>::AeadImpl as BaseAeadCore>::NonceSize::USIZE == 12);
        assert!(<<AesGcm256 as Aead>::AeadImpl as BaseAeadCore>::NonceSize::USIZE == 12);
        assert!(<<ChaCha20Poly1305 as Aead>::AeadImpl as BaseAeadCore>::NonceSize::USIZE == 12);
        assert!(<<ExportOnlyAead as Aead>::AeadImpl as BaseAeadCore>::NonceSize::USIZE == 128);
        assert!(<<AesGcm128 as Aead>::AeadImpl as BaseAeadCore>::TagSize::USIZE == 16);
        assert!(<<AesGcm256 as Aead>::AeadImpl as BaseAeadCore>::TagSize::USIZE == 16);
        assert!(<<ChaCha20Poly1305 as Aead>::AeadImpl as BaseAeadCore>::TagSize::USIZE == 16);
        assert!(<<ExportOnlyAead as Aead>::AeadImpl as BaseAeadCore>::TagSize::USIZE == 0);
        // the algorithm behind each identifier
        use core::any::TypeId;
        assert!(TypeId::of::<<AesGcm128 as Aead>::AeadImpl>() == TypeId::of::<::aes_gcm::Aes128Gcm>());
        assert!(TypeId::of::<<AesGcm256 as Aead>::AeadImpl>() == TypeId::of::<::aes_gcm::Aes256Gcm>());
        assert!(TypeId::of::<<ChaCha20Poly1305 as Aead>::AeadImpl>() == TypeId::of::<::chacha20poly1305::ChaCha20Poly1305>());
        // typenum constants used as axioms on the Verus side
        assert!(typenum::U0::USIZE == 0 && typenum::U12::USIZE == 12 && typenum::U16::USIZE == 16 && typenum::U32::USIZE == 32
            && typenum::U48::USIZE == 48 && typenum::U64::USIZE == 64 && typenum::U65::USIZE == 65 && typenum::U66::USIZE == 66
            && typenum::U97::USIZE == 97 && typenum::U128::USIZE == 128 && typenum::U133::USIZE == 133);
    }


    // ------------------------------------------------------------------ counterexample twins (bounded; never counted as proof)
    /// twin of the Verus contract of the allocating open (real body, model AEAD, |ciphertext| <= 20): short input -> OpenError,
    /// tag = last 16 bytes, message = the rest, same state step as the in-place form, exhaustion checked first
    #[cfg(any(feature = "alloc", feature = "std"))]
    #[kani::proof]
    #[kani::stub(zeroize::optimization_barrier, noop_barrier)]
    #[kani::unwind(34)]
    fn open_alloc_model_bounded() {
        let mut ctx: AeadCtxR<ModelAead, HkdfSha256, K> = any_ctx::<ModelAead>(ModelImpl).into();
        let seq0 = ctx.0.seq.0;
        let ov0 = ctx.0.overflowed;
        model_reset(false);
        let len: usize = kani::any();
        kani::assume(len <= 20);
        let buf: [u8; 20] = kani::any();
        let r = ctx.open(&buf[..len], b"aad");
        kani::cover!(len == 16 && r.is_ok());
        kani::cover!(len == 15);
        if ov0 {
            assert!(r.err() == Some(HpkeError::MessageLimitReached) && ctx.0.seq.0 == seq0 && ctx.0.overflowed && model_calls() == 0);
        } else if len < 16 {
            assert!(r.err() == Some(HpkeError::OpenError) && ctx.0.seq.0 == seq0 && !ctx.0.overflowed && model_calls() == 0);
        } else {
            let mut tag_ok = true;
            let mut i = 0;
            while i < 16 { if buf[len - 16 + i] != 0xA5 { tag_ok = false; } i += 1; }
            if tag_ok {
                let v = r.unwrap();
                assert!(v.len() == len - 16);
                let mut i = 0;
                while i < len - 16 { assert!(v[i] == buf[i].wrapping_sub(1)); i += 1; }
                if seq0 == u64::MAX { assert!(ctx.0.overflowed); } else { assert!(ctx.0.seq.0 == seq0 + 1 && !ctx.0.overflowed); }
            } else {
                assert!(r.err() == Some(HpkeError::OpenError) && ctx.0.seq.0 == seq0 && !ctx.0.overflowed);
            }
        }
        core::mem::forget(ctx);
    }

    /// twin of the Deserializable contract for AeadTag (all lengths 0..=34): exactly 16 bytes are accepted and kept
    #[kani::proof]
    #[kani::stub(zeroize::optimization_barrier, noop_barrier)]
    #[kani::unwind(36)]
    fn aead_tag_from_bytes_full() {
        let len: usize = kani::any();
        kani::assume(len <= 34);
        let buf: [u8; 34] = kani::any();
        let r = AeadTag::<AesGcm128>::from_bytes(&buf[..len]);
        kani::cover!(len == 16);
        kani::cover!(len == 17);
        if len != 16 {
            assert!(matches!(r, Err(HpkeError::IncorrectInputLength(16, l)) if l == len));
        } else {
            let t = r.unwrap();
            let mut i = 0;
            while i < 16 { assert!(t.0[i] == buf[i]); i += 1; }
        }
    }
}
