// ---- /verif/kani/x25519.rs: appended to src/dhkex/x25519.rs in the Kani scratch copy ----
#[cfg(kani)]
mod verif_kani {
    // the crate is no_std: names needed by Kani's generated concrete-playback tests
    extern crate std as verif_std;
    #[allow(unused_imports)] use verif_std::{vec, vec::Vec};
    use super::*;
    use crate::dhkex::DhKeyExchange;

    pub(crate) fn noop_barrier<T: ?Sized>(_val: &T) {}

    static mut DH_OUT: [u8; 32] = [0; 32];
    static mut DH_SK: [u8; 32] = [0; 32];
    static mut DH_PK: [u8; 32] = [0; 32];
    /// stands for the Montgomery ladder of the dependency: ANY 32-byte result (the harness is then
    /// complete over all 2^256 DH outputs); records its arguments so that the glue can be checked
    fn dh_stub(sk: &x25519_dalek::StaticSecret, pk: &x25519_dalek::PublicKey) -> x25519_dalek::SharedSecret {
        let out: [u8; 32] = kani::any();
        unsafe {
            DH_OUT = out;
            DH_SK = sk.to_bytes();
            DH_PK = *pk.as_bytes();
            // SharedSecret is a newtype around MontgomeryPoint([u8; 32]) with a private constructor
            core::mem::transmute::<[u8; 32], x25519_dalek::SharedSecret>(out)
        }
    }

    /// discharges the Verus-assumed contract of X25519::dh (RFC 9180 §7.1.4):
    /// Err <=> the DH output is all-zero; Ok carries exactly the DH output of (sk, pk)
    #[kani::proof]
    #[kani::unwind(34)]
    #[kani::stub(x25519_dalek::StaticSecret::diffie_hellman, dh_stub)]
    #[kani::stub(zeroize::optimization_barrier, noop_barrier)]
    fn x25519_dh_zero_check() {
        let skb: [u8; 32] = kani::any();
        let pkb: [u8; 32] = kani::any();
        let sk = PrivateKey(x25519_dalek::StaticSecret::from(skb));
        let pk = PublicKey(x25519_dalek::PublicKey::from(pkb));
        let r = X25519::dh(&sk, &pk);
        let out = unsafe { DH_OUT };
        let mut zero = true;
        let mut i = 0;
        while i < 32 { if out[i] != 0 { zero = false; } i += 1; }
        kani::cover!(zero);
        kani::cover!(!zero);
        // the ladder was called on the caller's keys, unchanged
        let mut i = 0;
        while i < 32 { assert!(unsafe { DH_SK[i] } == skb[i] && unsafe { DH_PK[i] } == pkb[i]); i += 1; }
        match r {
            Err(_) => assert!(zero),
            Ok(k) => {
                assert!(!zero);
                let b = k.0.as_bytes();
                let mut i = 0;
                while i < 32 { assert!(b[i] == out[i]); i += 1; }
            }
        }
    }

    /// discharges the Verus-assumed contracts of the three X25519 write_exact impls (exact-length copies)
    #[kani::proof]
    #[kani::unwind(34)]
    #[kani::stub(zeroize::optimization_barrier, noop_barrier)]
    fn write_exact_x25519_copies() {
        let skb: [u8; 32] = kani::any();
        let pkb: [u8; 32] = kani::any();
        let sk = PrivateKey(x25519_dalek::StaticSecret::from(skb));
        let pk = PublicKey(x25519_dalek::PublicKey::from(pkb));
        let mut o1 = [0u8; 32];
        let mut o2 = [0u8; 32];
        sk.write_exact(&mut o1);
        pk.write_exact(&mut o2);
        let mut i = 0;
        while i < 32 { assert!(o1[i] == skb[i] && o2[i] == pkb[i]); i += 1; }
        assert!(PublicKey::size() == 32 && PrivateKey::size() == 32 && KexResult::size() == 32);
    }

    #[kani::proof]
    #[kani::unwind(70)]
    #[kani::should_panic]
    fn write_exact_x25519_wrong_len_panics() {
        let pk = PublicKey(x25519_dalek::PublicKey::from([9u8; 32]));
        let len: usize = kani::any();
        kani::assume(len <= 66 && len != 32);
        let mut out = [0u8; 66];
        pk.write_exact(&mut out[..len]);
        kani::cover!(true, "VERIF_RETURNED");
    }

    /// Kani twin of the Verus contract of Deserializable::from_bytes for the X25519 keys, complete over all
    /// byte strings of length 0..=66: wrong length -> IncorrectInputLength(32, len) (expected first, given
    /// second); 32 bytes -> Ok and the key re-serializes to the input
    #[kani::proof]
    #[kani::unwind(68)]
    #[kani::stub(zeroize::optimization_barrier, noop_barrier)]
    fn x25519_from_bytes_full() {
        let len: usize = kani::any();
        kani::assume(len <= 66);
        let buf: [u8; 66] = kani::any();
        let rp = PublicKey::from_bytes(&buf[..len]);
        let rs = PrivateKey::from_bytes(&buf[..len]);
        kani::cover!(len == 32);
        kani::cover!(len == 31);
        if len != 32 {
            assert!(matches!(rp, Err(HpkeError::IncorrectInputLength(32, l)) if l == len));
            assert!(matches!(rs, Err(HpkeError::IncorrectInputLength(32, l)) if l == len));
        } else {
            let (pk, sk) = (rp.unwrap(), rs.unwrap());
            let mut o1 = [0u8; 32];
            let mut o2 = [0u8; 32];
            pk.write_exact(&mut o1);
            sk.write_exact(&mut o2);
            let mut i = 0;
            while i < 32 { assert!(o1[i] == buf[i] && o2[i] == buf[i]); i += 1; }
        }
    }
}
