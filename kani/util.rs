// ---- /verif/kani/util.rs: appended to src/util.rs in the Kani scratch copy (never part of /repo) ----
#[cfg(kani)]
mod verif_kani {
    // the crate is no_std: names needed by Kani's generated concrete-playback tests
    extern crate std as verif_std;
    #[allow(unused_imports)] use verif_std::{vec, vec::Vec};
    use super::*;

    /// I2OSP(n, len)[i] computed by division (independent of the shifts/masks in the code under test)
    fn i2osp_byte(n: u128, len: usize, i: usize) -> u8 {
        let mut d: u128 = 1;
        let mut k = 0;
        while k < len - 1 - i { d *= 256; k += 1; }
        ((n / d) % 256) as u8
    }

    /// discharges the Verus-assumed contract of write_u16_be: for ALL n, buf == I2OSP(n, 2)
    #[kani::proof]
    #[kani::unwind(3)]
    fn write_u16_be_full() {
        let n: u16 = kani::any();
        let mut b = [0u8; 2];
        write_u16_be(&mut b, n);
        kani::cover!(n == 0x1234);
        assert!(b[0] == i2osp_byte(n as u128, 2, 0));
        assert!(b[1] == i2osp_byte(n as u128, 2, 1));
    }

    /// discharges the Verus-assumed contract of write_u64_be: for ALL n, buf == I2OSP(n, 8)
    #[kani::proof]
    #[kani::unwind(9)]
    fn write_u64_be_full() {
        let n: u64 = kani::any();
        let mut b = [0u8; 8];
        write_u64_be(&mut b, n);
        kani::cover!(n == 0x0102030405060708);
        let mut i = 0;
        while i < 8 {
            assert!(b[i] == i2osp_byte(n as u128, 8, i));
            i += 1;
        }
    }

    /// the length preconditions are real: a buffer of any other length panics (assert_eq! in the body)
    #[kani::proof]
    #[kani::should_panic]
    fn write_u64_be_wrong_len_panics() {
        let len: usize = kani::any();
        kani::assume(len <= 16 && len != 8);
        let mut b = [0u8; 16];
        write_u64_be(&mut b[..len], kani::any());
        kani::cover!(true, "VERIF_RETURNED");
    }

    /// RFC 9180 §5.1 / §4.1 suite identifiers of all 48 suites, against the byte strings written out by hand:
    /// "HPKE" || I2OSP(kem_id, 2) || I2OSP(kdf_id, 2) || I2OSP(aead_id, 2)  and  "KEM" || I2OSP(kem_id, 2)
    fn check_suite<A: crate::aead::Aead, Kdf: KdfTrait, Kem: KemTrait>(kem: [u8; 2], kdf: [u8; 2], aead: [u8; 2]) {
        let f = full_suite_id::<A, Kdf, Kem>();
        assert!(f == [0x48, 0x50, 0x4b, 0x45, kem[0], kem[1], kdf[0], kdf[1], aead[0], aead[1]]);
        let k = kem_suite_id::<Kem>();
        assert!(k == [0x4b, 0x45, 0x4d, kem[0], kem[1]]);
    }
    fn check_kem_kdf<Kdf: KdfTrait, Kem: KemTrait>(kem: [u8; 2], kdf: [u8; 2]) {
        check_suite::<crate::aead::AesGcm128, Kdf, Kem>(kem, kdf, [0x00, 0x01]);
        check_suite::<crate::aead::AesGcm256, Kdf, Kem>(kem, kdf, [0x00, 0x02]);
        check_suite::<crate::aead::ChaCha20Poly1305, Kdf, Kem>(kem, kdf, [0x00, 0x03]);
        check_suite::<crate::aead::ExportOnlyAead, Kdf, Kem>(kem, kdf, [0xff, 0xff]);
    }
    fn check_kem<Kem: KemTrait>(kem: [u8; 2]) {
        check_kem_kdf::<crate::kdf::HkdfSha256, Kem>(kem, [0x00, 0x01]);
        check_kem_kdf::<crate::kdf::HkdfSha384, Kem>(kem, [0x00, 0x02]);
        check_kem_kdf::<crate::kdf::HkdfSha512, Kem>(kem, [0x00, 0x03]);
    }
    #[cfg(feature = "x25519")]
    #[kani::proof]
    #[kani::unwind(12)]
    fn suite_ids_table_x25519() { check_kem::<crate::kem::X25519HkdfSha256>([0x00, 0x20]); }
    #[cfg(feature = "p256")]
    #[kani::proof]
    #[kani::unwind(12)]
    fn suite_ids_table_p256() { check_kem::<crate::kem::DhP256HkdfSha256>([0x00, 0x10]); }
    #[cfg(feature = "p384")]
    #[kani::proof]
    #[kani::unwind(12)]
    fn suite_ids_table_p384() { check_kem::<crate::kem::DhP384HkdfSha384>([0x00, 0x11]); }
    #[cfg(feature = "p521")]
    #[kani::proof]
    #[kani::unwind(12)]
    fn suite_ids_table_p521() { check_kem::<crate::kem::DhP521HkdfSha512>([0x00, 0x12]); }
    #[kani::proof]
    fn kdf_ids_table() {
        // KDF identifiers and digest sizes (RFC 9180 §7.2)
        use digest::OutputSizeUser;
        assert!(<crate::kdf::HkdfSha256 as KdfTrait>::KDF_ID == 1 && <crate::kdf::HkdfSha384 as KdfTrait>::KDF_ID == 2 && <crate::kdf::HkdfSha512 as KdfTrait>::KDF_ID == 3);
        assert!(<<crate::kdf::HkdfSha256 as KdfTrait>::HashImpl as OutputSizeUser>::output_size() == 32);
        assert!(<<crate::kdf::HkdfSha384 as KdfTrait>::HashImpl as OutputSizeUser>::output_size() == 48);
        assert!(<<crate::kdf::HkdfSha512 as KdfTrait>::HashImpl as OutputSizeUser>::output_size() == 64);
        use core::any::TypeId;
        assert!(TypeId::of::<<crate::kdf::HkdfSha256 as KdfTrait>::HashImpl>() == TypeId::of::<sha2::Sha256>());
        assert!(TypeId::of::<<crate::kdf::HkdfSha384 as KdfTrait>::HashImpl>() == TypeId::of::<sha2::Sha384>());
        assert!(TypeId::of::<<crate::kdf::HkdfSha512 as KdfTrait>::HashImpl>() == TypeId::of::<sha2::Sha512>());
    }
}
