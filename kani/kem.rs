// ---- /verif/kani/kem.rs: appended to src/kem.rs in the Kani scratch copy ----
#[cfg(kani)]
pub(crate) mod verif_kani {
    // the crate is no_std: names needed by Kani's generated concrete-playback tests
    extern crate std as verif_std;
    #[allow(unused_imports)] use verif_std::{vec, vec::Vec};
    use super::*;
    use crate::kem::X25519HkdfSha256;

    pub(crate) fn noop_barrier<T: ?Sized>(_val: &T) {}

    #[repr(align(8))]
    struct Aligned([u8; 48]);

    /// C16: dropping a KEM shared secret wipes every byte of it, wherever it lives (any alignment 0..7)
    #[kani::proof]
    #[kani::unwind(50)]
    #[kani::stub(zeroize::optimization_barrier, noop_barrier)]
    fn drop_wipes_shared_secret_x25519() {
        let mut mem = Aligned([0u8; 48]);
        let off: usize = kani::any();
        kani::assume(off < 8);
        let mut ss = <SharedSecret<X25519HkdfSha256> as Default>::default();
        let mut i = 0;
        while i < 32 { ss.0[i] = kani::any(); i += 1; }
        assert!(core::mem::size_of::<SharedSecret<X25519HkdfSha256>>() == 32);
        assert!(core::mem::align_of::<SharedSecret<X25519HkdfSha256>>() == 1);
        unsafe {
            let p = mem.0.as_mut_ptr().add(off) as *mut SharedSecret<X25519HkdfSha256>;
            core::ptr::write(p, ss);
            core::ptr::drop_in_place(p);
        }
        kani::cover!(off == 1);
        let mut i = 0;
        while i < 48 { assert!(mem.0[i] == 0); i += 1; }
    }

    // ---- C18 / C03: gen_keypair depends only on the bytes it draws from the caller's RNG ----
    // gen_keypair is a provided trait method, generic in Self: running its REAL body for a model KEM whose
    // derive_keypair records its input is sound for every KEM.
    pub(crate) struct ScriptRng { pub(crate) data: [u8; 8], pub(crate) pos: usize }
    impl rand_core::RngCore for ScriptRng {
        fn next_u32(&mut self) -> u32 { 0 }
        fn next_u64(&mut self) -> u64 { 0 }
        fn fill_bytes(&mut self, dst: &mut [u8]) {
            let mut i = 0;
            while i < dst.len() { dst[i] = self.data[(self.pos + i) % 8]; i += 1; }
            self.pos += dst.len();
        }
    }
    impl rand_core::CryptoRng for ScriptRng {}

    #[derive(Clone, PartialEq, Eq, Debug)]
    pub struct MKey(pub(crate) [u8; 4]);
    impl Serializable for MKey {
        type OutputSize = generic_array::typenum::U4;
        fn write_exact(&self, buf: &mut [u8]) { buf.copy_from_slice(&self.0); }
    }
    impl Deserializable for MKey {
        fn from_bytes(b: &[u8]) -> Result<Self, HpkeError> { let mut a = [0u8; 4]; a.copy_from_slice(b); Ok(MKey(a)) }
    }
    pub(crate) struct ModelKem;
    impl Kem for ModelKem {
        type PublicKey = MKey;
        type PrivateKey = MKey;
        type EncappedKey = MKey;
        type NSecret = generic_array::typenum::U6;   // deliberately different from Nsk = 4
        const KEM_ID: u16 = 0x7777;
        fn sk_to_pk(sk: &MKey) -> MKey { sk.clone() }
        fn derive_keypair(ikm: &[u8]) -> (MKey, MKey) {
            assert!(ikm.len() == 4);
            let mut a = [0u8; 4];
            a.copy_from_slice(ikm);
            (MKey(a), MKey(a))
        }
        // model KEM: fails exactly when the first byte of the peer key is 0; the secret records which keys were used
        fn decap(sk: &MKey, pk_s: Option<&MKey>, enc: &MKey) -> Result<SharedSecret<Self>, HpkeError> {
            if enc.0[0] == 0 { return Err(HpkeError::DecapError); }
            let mut s = <SharedSecret<Self> as Default>::default();
            s.0[0] = enc.0[0]; s.0[1] = sk.0[0]; s.0[2] = match pk_s { Some(p) => p.0[0], None => 0xEE };
            Ok(s)
        }
        fn encap<R: CryptoRng + RngCore>(pk_r: &MKey, sender: Option<(&MKey, &MKey)>, rng: &mut R) -> Result<(SharedSecret<Self>, MKey), HpkeError> {
            if pk_r.0[0] == 0 { return Err(HpkeError::EncapError); }
            let (sk_e, pk_e) = Self::gen_keypair(rng);
            let mut s = <SharedSecret<Self> as Default>::default();
            s.0[0] = pk_r.0[0]; s.0[1] = sk_e.0[0]; s.0[2] = match sender { Some(kp) => kp.0.0[0], None => 0xEE };
            Ok((s, pk_e))
        }
    }
    /// two key generations from the same RNG state give the same key = derive_keypair(the Nsk bytes drawn),
    /// no matter how many unrelated key generations happened in between (no hidden state)
    #[kani::proof]
    #[kani::unwind(10)]
    #[kani::stub(zeroize::optimization_barrier, noop_barrier)]
    fn gen_keypair_depends_only_on_rng() {
        let data: [u8; 8] = kani::any();
        let mut r1 = ScriptRng { data, pos: 0 };
        let (sk1, _) = ModelKem::gen_keypair(&mut r1);
        // unrelated activity
        let mut other = ScriptRng { data: kani::any(), pos: 0 };
        let _ = ModelKem::gen_keypair(&mut other);
        let mut r2 = ScriptRng { data, pos: 0 };
        let (sk2, _) = ModelKem::gen_keypair(&mut r2);
        assert!(sk1 == sk2);
        assert!(sk1.0 == [data[0], data[1], data[2], data[3]]);
        assert!(r1.pos == 4 && r2.pos == 4);
    }

    // ---- C10 / C13 at the DHKEM level: the REAL X25519 encap_with_eph / decap with the Montgomery ladder and
    // HKDF stubbed; the k-th DH result is all-zero for a nondeterministically chosen k ----
    static mut DH_CALLS: u8 = 0;
    static mut DH_ZERO_AT: u8 = 0;
    fn dh_script(_sk: &x25519_dalek::StaticSecret, _pk: &x25519_dalek::PublicKey) -> x25519_dalek::SharedSecret {
        unsafe {
            let k = DH_CALLS;
            DH_CALLS += 1;
            let out: [u8; 32] = if k == DH_ZERO_AT { [0u8; 32] } else { [7u8; 32] };
            core::mem::transmute::<[u8; 32], x25519_dalek::SharedSecret>(out)
        }
    }
    fn kdf_stub<Kdf: crate::kdf::Kdf>(_ikm: &[u8], _suite_id: &[u8], _info: &[u8], _out: &mut [u8]) -> Result<(), hkdf::InvalidLength> { Ok(()) }
    fn sk_to_pk_stub(_sk: &<X25519HkdfSha256 as Kem>::PrivateKey) -> <X25519HkdfSha256 as Kem>::PublicKey {
        use crate::Deserializable;
        <X25519HkdfSha256 as Kem>::PublicKey::from_bytes(&[9u8; 32]).unwrap()
    }

    /// whichever of the DH computations inside AuthDecap yields the all-zero value (k = 0: DH(skR, pkE),
    /// k = 1: DH(skR, pkS)), decap fails with DecapError; if none does it succeeds
    #[kani::proof]
    #[kani::unwind(140)]
    #[kani::stub(x25519_dalek::StaticSecret::diffie_hellman, dh_script)]
    #[kani::stub(crate::kdf::extract_and_expand, kdf_stub)]
    #[kani::stub(<crate::dhkex::x25519::X25519 as crate::dhkex::DhKeyExchange>::sk_to_pk, sk_to_pk_stub)]
    #[kani::stub(zeroize::optimization_barrier, noop_barrier)]
    fn x25519_decap_zero_dh_rejected() {
        use crate::Deserializable;
        type K = X25519HkdfSha256;
        let sk = <K as Kem>::PrivateKey::from_bytes(&[1u8; 32]).unwrap();
        let pks = <K as Kem>::PublicKey::from_bytes(&[2u8; 32]).unwrap();
        let enc = <K as Kem>::EncappedKey::from_bytes(&[3u8; 32]).unwrap();
        let auth: bool = kani::any();
        let zero_at: u8 = kani::any();
        kani::assume(zero_at <= 2);
        unsafe { DH_CALLS = 0; DH_ZERO_AT = zero_at; }
        let r = K::decap(&sk, if auth { Some(&pks) } else { None }, &enc);
        let n_dh: u8 = if auth { 2 } else { 1 };
        kani::cover!(auth && zero_at == 1);
        kani::cover!(!auth && zero_at == 2);
        if zero_at < n_dh {
            assert!(matches!(r, Err(HpkeError::DecapError)));
        } else {
            assert!(r.is_ok());
        }
    }

    /// sender side: whichever DH inside (Auth)Encap is all-zero (k = 0: DH(skE, pkR), k = 1: DH(skS, pkR)),
    /// encapsulation fails with EncapError; otherwise it succeeds and enc = pk(skE)
    #[kani::proof]
    #[kani::unwind(140)]
    #[kani::stub(x25519_dalek::StaticSecret::diffie_hellman, dh_script)]
    #[kani::stub(crate::kdf::extract_and_expand, kdf_stub)]
    #[kani::stub(<crate::dhkex::x25519::X25519 as crate::dhkex::DhKeyExchange>::sk_to_pk, sk_to_pk_stub)]
    #[kani::stub(zeroize::optimization_barrier, noop_barrier)]
    fn x25519_encap_zero_dh_rejected() {
        use crate::Deserializable;
        type K = X25519HkdfSha256;
        let ske = <K as Kem>::PrivateKey::from_bytes(&[1u8; 32]).unwrap();
        let sks = <K as Kem>::PrivateKey::from_bytes(&[4u8; 32]).unwrap();
        let pks = <K as Kem>::PublicKey::from_bytes(&[2u8; 32]).unwrap();
        let pkr = <K as Kem>::PublicKey::from_bytes(&[3u8; 32]).unwrap();
        let auth: bool = kani::any();
        let zero_at: u8 = kani::any();
        kani::assume(zero_at <= 2);
        unsafe { DH_CALLS = 0; DH_ZERO_AT = zero_at; }
        let r = crate::kem::x25519_hkdfsha256::encap_with_eph(&pkr, if auth { Some((&sks, &pks)) } else { None }, ske);
        let n_dh: u8 = if auth { 2 } else { 1 };
        kani::cover!(auth && zero_at == 1);
        if zero_at < n_dh {
            assert!(matches!(r, Err(HpkeError::EncapError)));
        } else {
            assert!(r.is_ok());
        }
    }

    /// RFC 9180 §7.1 Table 2: KEM identifiers and Nsecret / Nenc / Npk / Nsk of the four DHKEMs
    #[kani::proof]
    fn kem_ids_table() {
        use generic_array::typenum::Unsigned;
        #[cfg(feature = "x25519")]
        {
            type K = crate::kem::X25519HkdfSha256;
            assert!(<K as Kem>::KEM_ID == 0x0020 && <K as Kem>::NSecret::USIZE == 32);
            assert!(<K as Kem>::EncappedKey::size() == 32 && <K as Kem>::PublicKey::size() == 32 && <K as Kem>::PrivateKey::size() == 32);
        }
        #[cfg(feature = "p256")]
        {
            type K = crate::kem::DhP256HkdfSha256;
            assert!(<K as Kem>::KEM_ID == 0x0010 && <K as Kem>::NSecret::USIZE == 32);
            assert!(<K as Kem>::EncappedKey::size() == 65 && <K as Kem>::PublicKey::size() == 65 && <K as Kem>::PrivateKey::size() == 32);
        }
        #[cfg(feature = "p384")]
        {
            type K = crate::kem::DhP384HkdfSha384;
            assert!(<K as Kem>::KEM_ID == 0x0011 && <K as Kem>::NSecret::USIZE == 48);
            assert!(<K as Kem>::EncappedKey::size() == 97 && <K as Kem>::PublicKey::size() == 97 && <K as Kem>::PrivateKey::size() == 48);
        }
        #[cfg(feature = "p521")]
        {
            type K = crate::kem::DhP521HkdfSha512;
            assert!(<K as Kem>::KEM_ID == 0x0012 && <K as Kem>::NSecret::USIZE == 64);
            assert!(<K as Kem>::EncappedKey::size() == 133 && <K as Kem>::PublicKey::size() == 133 && <K as Kem>::PrivateKey::size() == 66);
        }
    }

    #[repr(align(8))]
    struct Aligned80([u8; 80]);
    fn check_ss_wiped<K: Kem>(n: usize) {
        let mut mem = Aligned80([0u8; 80]);
        let off: usize = kani::any();
        kani::assume(off < 8);
        let mut ss = <SharedSecret<K> as Default>::default();
        assert!(ss.0.len() == n && core::mem::size_of::<SharedSecret<K>>() == n);
        let mut i = 0;
        while i < n { ss.0[i] = kani::any(); i += 1; }
        unsafe {
            let p = mem.0.as_mut_ptr().add(off) as *mut SharedSecret<K>;
            core::ptr::write(p, ss);
            core::ptr::drop_in_place(p);
        }
        let mut i = 0;
        while i < 80 { assert!(mem.0[i] == 0); i += 1; }
    }
    /// C16 for the KEMs with Nsecret > 32 (48 and 64 bytes): every byte is wiped on drop
    #[cfg(feature = "p521")]
    #[kani::proof]
    #[kani::unwind(82)]
    #[kani::stub(zeroize::optimization_barrier, noop_barrier)]
    fn drop_wipes_shared_secret_p521() { check_ss_wiped::<crate::kem::DhP521HkdfSha512>(64); }
    #[cfg(feature = "p384")]
    #[kani::proof]
    #[kani::unwind(82)]
    #[kani::stub(zeroize::optimization_barrier, noop_barrier)]
    fn drop_wipes_shared_secret_p384() { check_ss_wiped::<crate::kem::DhP384HkdfSha384>(48); }

    // ---- what the REAL X25519 DHKEM bodies hand to ExtractAndExpand (RFC 9180 §4.1), with a recording KDF ----
    static mut REC_IKM: [u8; 80] = [0; 80];
    static mut REC_IKM_LEN: usize = 0;
    static mut REC_INFO: [u8; 120] = [0; 120];
    static mut REC_INFO_LEN: usize = 0;
    static mut REC_SUITE: [u8; 8] = [0; 8];
    static mut REC_SUITE_LEN: usize = 0;
    fn kdf_record<Kdf: crate::kdf::Kdf>(ikm: &[u8], suite_id: &[u8], info: &[u8], out: &mut [u8]) -> Result<(), hkdf::InvalidLength> {
        unsafe {
            assert!(ikm.len() <= 80 && info.len() <= 120 && suite_id.len() <= 8);
            REC_IKM_LEN = ikm.len(); REC_INFO_LEN = info.len(); REC_SUITE_LEN = suite_id.len();
            let mut i = 0; while i < ikm.len() { REC_IKM[i] = ikm[i]; i += 1; }
            let mut i = 0; while i < info.len() { REC_INFO[i] = info[i]; i += 1; }
            let mut i = 0; while i < suite_id.len() { REC_SUITE[i] = suite_id[i]; i += 1; }
            let mut i = 0; while i < out.len() { out[i] = 0x5a; i += 1; }
        }
        Ok(())
    }
    fn dh_by_call(_sk: &x25519_dalek::StaticSecret, _pk: &x25519_dalek::PublicKey) -> x25519_dalek::SharedSecret {
        unsafe {
            let k = DH_CALLS;
            DH_CALLS += 1;
            // first DH -> 0x11.., second DH -> 0x22..
            let out: [u8; 32] = if k == 0 { [0x11u8; 32] } else { [0x22u8; 32] };
            core::mem::transmute::<[u8; 32], x25519_dalek::SharedSecret>(out)
        }
    }
    fn rec_eq(buf: &[u8], off: usize, val: u8, n: usize) -> bool {
        let mut i = 0;
        while i < n { if buf[off + i] != val { return false; } i += 1; }
        true
    }
    /// Encap/AuthEncap and Decap/AuthDecap pass to the KDF: suite_id = "KEM" || I2OSP(0x0020, 2),
    /// dh = DH_1 [|| DH_2] in that order, kem_context = enc || pkRm [|| pkSm]; the result is the KDF output
    #[kani::proof]
    #[kani::unwind(140)]
    #[kani::stub(x25519_dalek::StaticSecret::diffie_hellman, dh_by_call)]
    #[kani::stub(crate::kdf::extract_and_expand, kdf_record)]
    #[kani::stub(<crate::dhkex::x25519::X25519 as crate::dhkex::DhKeyExchange>::sk_to_pk, sk_to_pk_stub)]
    #[kani::stub(zeroize::optimization_barrier, noop_barrier)]
    fn x25519_dhkem_kdf_inputs() {
        use crate::Deserializable;
        type K = X25519HkdfSha256;
        let auth: bool = kani::any();
        let receiver: bool = kani::any();
        let sk = <K as Kem>::PrivateKey::from_bytes(&[1u8; 32]).unwrap();
        let sks = <K as Kem>::PrivateKey::from_bytes(&[4u8; 32]).unwrap();
        let pks = <K as Kem>::PublicKey::from_bytes(&[0x33u8; 32]).unwrap();
        let pkr = <K as Kem>::PublicKey::from_bytes(&[0x44u8; 32]).unwrap();
        let enc = <K as Kem>::EncappedKey::from_bytes(&[0x55u8; 32]).unwrap();
        unsafe { DH_CALLS = 0; }
        // sk_to_pk is stubbed to the constant public key 09..09: on the sender it is enc, on the receiver pkRm
        let secret = if receiver {
            K::decap(&sk, if auth { Some(&pks) } else { None }, &enc).unwrap()
        } else {
            crate::kem::x25519_hkdfsha256::encap_with_eph(&pkr, if auth { Some((&sks, &pks)) } else { None }, sk).unwrap().0
        };
        kani::cover!(auth && receiver);
        kani::cover!(!auth && !receiver);
        unsafe {
            assert!(REC_SUITE_LEN == 5 && REC_SUITE[0] == 0x4b && REC_SUITE[1] == 0x45 && REC_SUITE[2] == 0x4d && REC_SUITE[3] == 0x00 && REC_SUITE[4] == 0x20);
            assert!(REC_IKM_LEN == if auth { 64 } else { 32 });
            assert!(rec_eq(&REC_IKM, 0, 0x11, 32));
            if auth { assert!(rec_eq(&REC_IKM, 32, 0x22, 32)); }
            assert!(REC_INFO_LEN == if auth { 96 } else { 64 });
            let (e, r) = if receiver { (0x55u8, 0x09u8) } else { (0x09u8, 0x44u8) };
            assert!(rec_eq(&REC_INFO, 0, e, 32));
            assert!(rec_eq(&REC_INFO, 32, r, 32));
            if auth { assert!(rec_eq(&REC_INFO, 64, 0x33, 32)); }
        }
        let mut i = 0;
        while i < 32 { assert!(secret.0[i] == 0x5a); i += 1; }
    }
}
