// ---- /verif/kani/kem.rs: appended to src/kem.rs in the Kani scratch copy ----
#[cfg(kani)]
mod verif_kani {
    // the crate is no_std: names needed by Kani's generated concrete-playback tests
    extern crate std as verif_std;
    #[allow(unused_imports)] use verif_std::{vec, vec::Vec};
    use super::*;
    use crate::kem::X25519HkdfSha256;

    pub(crate) fn noop_barrier<T: ?Sized>(_val: &T) {}

    #[repr(align(8))]
    struct Aligned([u8; 48]);

    /// C16: dropping a KEM shared secret wipes every byte of it, wherever it lives (any alignment 0..7)
    #[kani::proof]
    #[kani::unwind(50)]
    #[kani::stub(zeroize::optimization_barrier, noop_barrier)]
    fn drop_wipes_shared_secret() {
        let mut mem = Aligned([0u8; 48]);
        let off: usize = kani::any();
        kani::assume(off < 8);
        let mut ss = <SharedSecret<X25519HkdfSha256> as Default>::default();
        let mut i = 0;
        while i < 32 { ss.0[i] = kani::any(); i += 1; }
        assert!(core::mem::size_of::<SharedSecret<X25519HkdfSha256>>() == 32);
        assert!(core::mem::align_of::<SharedSecret<X25519HkdfSha256>>() == 1);
        unsafe {
            let p = mem.0.as_mut_ptr().add(off) as *mut SharedSecret<X25519HkdfSha256>;
            core::ptr::write(p, ss);
            core::ptr::drop_in_place(p);
        }
        kani::cover!(off == 1);
        let mut i = 0;
        while i < 48 { assert!(mem.0[i] == 0); i += 1; }
    }

    // ---- C18 / C03: gen_keypair depends only on the bytes it draws from the caller's RNG ----
    // gen_keypair is a provided trait method, generic in Self: running its REAL body for a model KEM whose
    // derive_keypair records its input is sound for every KEM.
    struct ScriptRng { data: [u8; 8], pos: usize }
    impl rand_core::RngCore for ScriptRng {
        fn next_u32(&mut self) -> u32 { 0 }
        fn next_u64(&mut self) -> u64 { 0 }
        fn fill_bytes(&mut self, dst: &mut [u8]) {
            let mut i = 0;
            while i < dst.len() { dst[i] = self.data[(self.pos + i) % 8]; i += 1; }
            self.pos += dst.len();
        }
    }
    impl rand_core::CryptoRng for ScriptRng {}

    #[derive(Clone, PartialEq, Eq, Debug)]
    pub struct MKey([u8; 4]);
    impl Serializable for MKey {
        type OutputSize = generic_array::typenum::U4;
        fn write_exact(&self, buf: &mut [u8]) { buf.copy_from_slice(&self.0); }
    }
    impl Deserializable for MKey {
        fn from_bytes(b: &[u8]) -> Result<Self, HpkeError> { let mut a = [0u8; 4]; a.copy_from_slice(b); Ok(MKey(a)) }
    }
    struct ModelKem;
    impl Kem for ModelKem {
        type PublicKey = MKey;
        type PrivateKey = MKey;
        type EncappedKey = MKey;
        type NSecret = generic_array::typenum::U4;
        const KEM_ID: u16 = 0x7777;
        fn sk_to_pk(sk: &MKey) -> MKey { sk.clone() }
        fn derive_keypair(ikm: &[u8]) -> (MKey, MKey) {
            assert!(ikm.len() == 4);
            let mut a = [0u8; 4];
            a.copy_from_slice(ikm);
            (MKey(a), MKey(a))
        }
        fn decap(_: &MKey, _: Option<&MKey>, _: &MKey) -> Result<SharedSecret<Self>, HpkeError> { Err(HpkeError::DecapError) }
        fn encap<R: CryptoRng + RngCore>(_: &MKey, _: Option<(&MKey, &MKey)>, _: &mut R) -> Result<(SharedSecret<Self>, MKey), HpkeError> { Err(HpkeError::EncapError) }
    }
    /// two key generations from the same RNG state give the same key = derive_keypair(the Nsk bytes drawn),
    /// no matter how many unrelated key generations happened in between (no hidden state)
    #[kani::proof]
    #[kani::unwind(10)]
    #[kani::stub(zeroize::optimization_barrier, noop_barrier)]
    fn gen_keypair_depends_only_on_rng() {
        let data: [u8; 8] = kani::any();
        let mut r1 = ScriptRng { data, pos: 0 };
        let (sk1, _) = ModelKem::gen_keypair(&mut r1);
        // unrelated activity
        let mut other = ScriptRng { data: kani::any(), pos: 0 };
        let _ = ModelKem::gen_keypair(&mut other);
        let mut r2 = ScriptRng { data, pos: 0 };
        let (sk2, _) = ModelKem::gen_keypair(&mut r2);
        assert!(sk1 == sk2);
        assert!(sk1.0 == [data[0], data[1], data[2], data[3]]);
        assert!(r1.pos == 4 && r2.pos == 4);
    }
}
